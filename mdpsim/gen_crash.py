"""C09 / C10 / C11 / C12: the full world - lifetimes, restores, kills, directory model."""

from __future__ import annotations

import random

from . import plan as P
from . import props as Q
from .seams import HarnessError


def draw_tab_world(prop: str, rng: random.Random) -> dict:
    cfg = True
    if prop in ("C10", "C09", "C12") and rng.random() < 0.2:
        cfg = False  # config-less custom problem: lightweight checkpointing + load_checkpoint()
    shuffle = False
    solvers = P.DET_SOLVERS
    world = P.draw_world(rng, solvers=solvers, cfg=cfg, never_converge_p=0.45, shuffle=shuffle)
    if prop == "C12" and rng.random() < 0.12:
        world["ckpt"]["f"] = 0
    if rng.random() < {"C10": 0.3, "C09": 0.1, "C12": 0.05}.get(prop, 0.0):
        # a shipped problem rebuilt from YAML (5 solvers x 4 problems x their parameters)
        world["problem"] = P.draw_shipped_problem(rng)
        world["solver"]["kw"]["max_batch_size"] = rng.choice([1, 3, 7, 16, 64, 1024])
        if world["solver"]["cls"] == "PER" and world["problem"]["kind"] == "mirjalili" and rng.random() < 0.5:
            world["solver"]["kw"]["period"] = 7
    return world


def build(prop: str, rng: random.Random, seed: int, root: str, force: dict | None = None):
    world = draw_tab_world(prop, rng)
    if force:
        # grid phase of C10: a given solver class on a given shipped problem
        cls = force["cls"]
        world["solver"] = P.draw_solver(rng, cls, 32, never_converge=rng.random() < 0.5, shuffle=False)
        world["problem"] = P.draw_shipped_problem(rng, kind=force["kind"])
        world["solver"]["kw"]["max_batch_size"] = rng.choice([3, 7, 16, 64, 1024])
        if cls == "PER" and force["kind"] == "mirjalili":
            world["solver"]["kw"]["period"] = 7
    Tmax = rng.randint(5, 16)
    if world["solver"]["cls"] == "PI":
        Tmax = rng.randint(3, 8)
    if prop == "C09" and rng.random() < 0.12:
        # state shuffling: the PRNG key is not part of a checkpoint, so the resumed trajectory
        # legitimately differs - the resumed run must still converge within the same error bound
        prob = P.draw_problem(rng, need_anchor=False)
        kw = {"max_batch_size": rng.randint(1, prob["n"] + 3), "gamma": rng.choice([0.5, 0.7, 0.8, 0.9]), "epsilon": float(f"{P.loguniform(rng, 1e-6, 1e-2):.3g}"),
              "convergence_test": "max_diff", "shuffle_states": True, "random_seed": rng.randint(0, 10**6)}
        world = {"problem": prob, "solver": {"cls": "SA", "kw": kw}, "ckpt": P.draw_ckpt(rng)}
        Tmax = 500
    if prop == "C10" and not force and world["solver"]["cls"] != "PI" and world["ckpt"]["f"] > 0 and rng.random() < 0.3:
        # longer runs with several retained checkpoints whose labels cross 9 -> 10
        Tmax = rng.randint(12, 16)
        world["ckpt"]["f"] = rng.choice([1, 1, 2, 3])
        world["ckpt"]["m"] = rng.choice([2, 3])
        world["solver"]["kw"]["epsilon"] = 1e-13
    ctl = Q.run_control(world, Tmax, root)
    plan = {"prop": prop, "seed": seed, "devices": P.devices_for(prop, seed), "world": world, "Tmax": Tmax}
    if not ctl.ok:
        plan["lifetimes"] = []
        return plan, ctl
    if world["ckpt"]["f"] == 0:
        ops = [{"op": "solve_to", "it": Tmax}, {"op": "wait"}]
        if ctl.end_it > 1:
            ops = [{"op": "solve_to", "it": rng.randint(1, ctl.end_it - 1)}, {"op": "wait"}] + ops
        lts = [{"route": "construct", "ops": ops, "writer": {"mode": "eager"}}]
    else:
        lts = Q.lifetimes_crash_family(rng, prop, world, ctl, Tmax)
    for lt in lts:
        if lt.get("step") == "explicit":
            lt["pick"] = rng.randint(0, 5)
    plan["lifetimes"] = lts
    plan["load_contents"] = prop in ("C12",) or (prop == "C10" and rng.random() < 0.3)
    return plan, ctl


def evaluate(prop: str, plan: dict, run, ctl):
    V = Q.Verdicts(prop)
    Tmax = plan["Tmax"]
    hs = run.hist["lifetimes"]
    if len(hs) != len(plan["lifetimes"]):
        raise HarnessError("history / plan length mismatch")
    # every property evaluates only the oracles of its own statement (DESIGN.md section 6)
    if prop in ("C10", "C11"):
        for li, h in enumerate(hs):
            Q.check_boot(V, prop, plan, run, li, h)
    if prop == "C09":
        Q.check_resume_point(V, prop, plan, run)
        if Q.is_shuffled(plan["world"]):
            Q.check_shuffled_bound(V, prop, plan, run)
    Q.check_calls(V, prop, run)
    if prop in ("C09", "C10", "C11"):
        Q.check_trajectory(V, prop, plan, run, ctl)
        Q.check_final(V, prop, plan, run, ctl, Tmax)
    if prop in ("C12", "C10"):
        Q.check_directory(V, prop, plan, run, content=(prop == "C12"))
    if prop == "C10":
        Q.check_overrides(V, prop, plan, run)
    # reach probes
    for h in hs:
        if any(not s["started"] for s in h["saves"]):
            V.probe("save_skipped_by_manager")
        if any(x.endswith(".orbax-checkpoint-tmp") for x in h.get("pre_listing", [])):
            V.probe("stale_temp_dir_at_restart")
        if h["route"] != "construct" and not h["model"]["committed"]:
            V.probe("restore_with_no_committed_step")
        c = h.get("crash")
        if c and c.get("perturb", {}).get("kind") == "partial_delete" and c["perturb"].get("applied"):
            V.probe("crash_during_deletion" + ("_m1" if h["eff"]["m"] == 1 else ""))
        for call in h["calls"]:
            if call.get("converged") and call["it1"] % max(1, h["eff"]["f"] or 1) == 0:
                V.probe("converged_on_multiple_of_f")
    return V
