"""Seeded random tabular MDPs - pure NumPy, no jax, no mdpax.

The tables ARE the specification of the harness-side problem
(`mdpsim.tabprob.Tab` only looks them up), so the reference model
(`mdpsim.refmodel`) that works from the same tables is independent of every
line of mdpax.
"""

from __future__ import annotations

import numpy as np

# keys of a problem spec and their defaults
DEFAULTS = dict(seed=0, n=7, na=3, ne=2, offset=0, sdim=1, adim=1, iv=0, anchor=0, dup=0)


def norm_spec(spec: dict) -> dict:
    s = dict(DEFAULTS)
    s.update({k: v for k, v in spec.items() if k in DEFAULTS})
    return {k: int(v) for k, v in s.items()}


def make_tables(spec: dict) -> dict:
    """Return dict(nxt[n,na,ne] int, rew[n,na,ne] float, p[n,na,ne] float, v0[n] float).

    anchor=1: event 0 of every (s,a) leads to state 0 with probability >= 0.15,
              which makes the chain unichain and aperiodic under every policy
              (needed for relative / undiscounted periodic value iteration).
    dup=1:    the last action duplicates action 0 (ties between actions).
    iv=1:     non-zero problem-supplied initial value estimates.
    """
    c = norm_spec(spec)
    n, na, ne = c["n"], c["na"], c["ne"]
    rng = np.random.default_rng(c["seed"])
    nxt = rng.integers(0, n, size=(n, na, ne))
    rew = np.round(rng.normal(size=(n, na, ne)) * 4.0, 3)
    p = rng.random((n, na, ne)) + 0.05
    p /= p.sum(-1, keepdims=True)
    if c["anchor"]:
        nxt[:, :, 0] = 0
        p[:, :, 0] = np.maximum(p[:, :, 0], 0.15)
        p /= p.sum(-1, keepdims=True)
    if c["dup"] and na >= 2:
        nxt[:, na - 1, :] = nxt[:, 0, :]
        rew[:, na - 1, :] = rew[:, 0, :]
        p[:, na - 1, :] = p[:, 0, :]
    v0 = np.round(rng.normal(size=n) * 3.0, 3) if c["iv"] else np.zeros(n)
    return dict(nxt=nxt.astype(np.int64), rew=rew.astype(np.float64), p=p.astype(np.float64), v0=v0.astype(np.float64))


def state_width(spec: dict) -> int:
    """Second-coordinate width used when sdim == 2 (state i <-> (i // w, i % w))."""
    c = norm_spec(spec)
    return max(1, int(np.ceil(np.sqrt(c["n"]))))


def state_vectors(spec: dict) -> np.ndarray:
    """Natural-order state space [n, sdim] (int32 semantics)."""
    c = norm_spec(spec)
    idx = np.arange(c["n"])
    if c["sdim"] == 1:
        return (idx + c["offset"]).reshape(-1, 1)
    w = state_width(c)
    return np.stack([idx // w + c["offset"], idx % w], axis=1)


def action_vectors(spec: dict) -> np.ndarray:
    c = norm_spec(spec)
    a = np.arange(c["na"])
    if c["adim"] == 1:
        return a.reshape(-1, 1)
    return np.stack([a // 2, a % 2], axis=1)


def zero_vector_is_state(spec: dict) -> bool:
    sv = state_vectors(spec)
    return bool((sv == 0).all(axis=1).any())
