"""Batch driver: seeds -> cases on the pools -> verdict, replay files, evidence."""

from __future__ import annotations

import json
import os
import shutil
import sys
import time

from . import boot
from . import plan as P
from .check import LEVEL, RUNS, VERIF, WALL_CAP, load_known, shrink, split_known, write_replay
from .runner import Pools, run_cases

COMPONENTS = {
    "real": [
        "mdpax solvers / problems / CheckpointMixin (imported from /repo/src, current working tree)",
        "JAX + XLA:CPU incl. pmap over N emulated host devices",
        "Orbax CheckpointManager / AsyncCheckpointer / handlers, TensorStore (opaque C++)",
        "Hydra / OmegaConf (config.yaml, instantiate)",
        "file system: tmpfs directory per run",
    ],
    "simulated": [
        "scheduling of Orbax's background writer relative to the solver loop (real threads parked/released at gates)",
        "process kill and restart (in-process: snapshot of the directory at the joint point, all objects discarded)",
        "what a kill leaves inside uncommitted temp dirs / half-deleted steps (removal + truncation model)",
    ],
    "stubbed": [],
    "harness_side": ["the MDP being solved (mdpsim.tabprob.Tab: seeded random tables; an ordinary Problem subclass)"],
}


def _sample_of(r: dict) -> dict:
    p = r.get("plan") or {}
    return {
        "seed": r["seed"],
        "devices": r.get("devices"),
        "world": p.get("world"),
        "Tmax": p.get("Tmax"),
        "lifetimes": p.get("lifetimes"),
        "knobs": p.get("knobs"),
        "checks": r.get("checks"),
        "volume": r.get("volume"),
        "hist_digest": r.get("hist_digest"),
    }


def run_check(prop: str, tier: str, verif_seed: int, runs: int | None, shrink_enabled=True) -> int:
    t0 = time.time()
    n = runs or RUNS[tier][prop]
    cap = float(os.environ.get("VERIF_BUDGET_S", WALL_CAP[tier]))
    deadline = t0 + cap
    known = load_known()
    run_base = os.path.join(boot.scratch_base(), f"mdpsim-run-{os.getpid()}")
    os.makedirs(run_base, exist_ok=True)
    os.environ["MDPSIM_SCRATCH_BASE"] = run_base  # inherited by every worker and lifetime process
    pools = Pools()
    items = []
    if prop == "C03":
        # knob replay: every history is executed in three processes with different device counts
        import random as _r

        for j in range(max(1, n // 3)):
            s = P.run_seed(prop, verif_seed, j)
            others = _r.Random(s ^ 0xD0).sample([2, 3, 4, 8] if tier == "quick" else [2, 3, 4, 5, 6, 7, 8], 2)
            for d in [1] + sorted(others):
                items.append((len(items), s, d))
    else:
        for i in range(n):
            s = P.run_seed(prop, verif_seed, i)
            items.append((i, s, P.devices_for(prop, s)))
    print(f"[{prop}/{tier}] VERIF_SEED={verif_seed} runs={n} workers={pools.total} wall cap={cap:.0f}s", flush=True)
    extra = {}
    results = []
    rc = 0
    try:
        results = run_cases(pools, prop, items, deadline=deadline)
        # hard budget: a tree on which the simulator keeps stalling must not run the check into its
        # outer timeout - once violations are known and time is short the remaining phases (which
        # could only add more) are skipped; skipped phases without any violation = HARNESS-ERROR
        hard = t0 + {"quick": 1100.0, "thorough": 5400.0}[tier] * float(os.environ.get("MDPSIM_HARD_SCALE", "1"))
        found = any(split_known(prop, r.get("violations") or [], known)[0] for r in results if r.get("verdict") == "violation")
        skipped = []

        def go(name):
            late = time.time() > hard or (found and time.time() > t0 + (hard - t0) * 0.5)
            if late:
                skipped.append(name)
            return not late

        if prop == "C11" and not go("enumeration"):
            pass
        elif prop == "C11":
            from . import enum_c11

            extra = enum_c11.run(pools, tier, verif_seed, hard, known)
        if prop == "C10" and go("grid"):
            extra = c10_grid(pools, verif_seed, tier, known)
        if prop in ("C09", "C12") and go("grid"):
            from . import enum_grid

            extra = enum_grid.run(pools, prop, tier, verif_seed, hard, known)
        if prop == "C03":
            from . import gen_sched

            extra = gen_sched.cross_device(results)
        if prop in ("C11", "C09", "C10", "C12") and go("fidelity"):
            fid = fidelity_phase(pools, prop, verif_seed, {"C11": 16, "C09": 10, "C10": 6, "C12": 6}[prop] * (1 if tier == "quick" else 12), known)
            extra.setdefault("violations", []).extend(fid.pop("violations"))
            for k, v in fid.pop("known").items():
                extra.setdefault("known", {})[k] = extra.setdefault("known", {}).get(k, 0) + v
            extra["harness_errors"] = extra.get("harness_errors", 0) + fid.pop("harness_errors")
            extra["x_fidelity_real_lifetimes"] = fid
        if prop in ("C09", "C10", "C11", "C12") and go("readme_order"):
            ro = readme_phase(pools, prop, verif_seed, {"C09": 8, "C10": 5, "C11": 6, "C12": 4}[prop] * (1 if tier == "quick" else 8))
            extra.setdefault("violations", []).extend(ro.pop("violations"))
            for kid, cnt in ro.pop("known").items():
                extra.setdefault("known", {})[kid] = extra.setdefault("known", {}).get(kid, 0) + cnt
            extra["harness_errors"] = extra.get("harness_errors", 0) + ro.pop("harness_errors")
            extra["x_readme_boot_order_real_processes"] = ro
        # determinism slice: re-execute a few cases, histories must be identical
        det = determinism_slice(pools, prop, results, k=24 if tier == "quick" else 120) if go("determinism") else {"reexecuted": 0, "diverged": []}
        if skipped:
            extra["x_phases_skipped_for_time"] = skipped
            print(f"NOTE: phases skipped because the hard time budget was reached: {skipped}")
            if not found and not extra.get("violations"):
                extra["harness_errors"] = extra.get("harness_errors", 0) + 1
        rc = finish(prop, tier, verif_seed, results, extra, det, known, pools, t0, shrink_enabled)
    finally:
        pools.shutdown()
        shutil.rmtree(run_base, ignore_errors=True)
    return rc


def c10_grid(pools, verif_seed, tier, known):
    """C10: every solver class on every shipped problem (rebuilt from YAML), each combination
    once (quick) or six times (thorough) with seeded parameters, histories and overrides."""
    from .check import split_known

    reps = 1 if tier == "quick" else 6
    futs = []
    for rep in range(reps):
        for cls in P.DET_SOLVERS:
            for kind in ("forest", "de_moor", "hendrix", "mirjalili"):
                s = P.run_seed(f"C10-grid-{cls}-{kind}", verif_seed, rep)
                futs.append((cls, kind, s, pools.submit_custom(1, "mdpsim.cases.run_case_forced", "C10", s, {"cls": cls, "kind": kind})))
    out = {"violations": [], "known": {}, "evaluations": 0, "distinct_nontrivial": 0, "samples": [], "harness_errors": 0, "x_grid": {"combinations": {}, "space": "5 solver classes x 4 shipped problems"}}
    for cls, kind, s, f in futs:
        try:
            r = pools.result_or_retry(f, 1, lambda cls=cls, kind=kind, s=s: pools.submit_custom(1, "mdpsim.cases.run_case_forced", "C10", s, {"cls": cls, "kind": kind}), timeout=900)
        except BaseException as e:  # noqa: BLE001
            r = {"verdict": "harness_error", "error": f"worker failed: {e}"}
        key = f"{cls}/{kind}"
        if r["verdict"] == "harness_error":
            out["harness_errors"] += 1
            print(f"HARNESS-ERROR C10 grid {key} seed={s}: {str(r.get('error'))[:1000]}")
            continue
        out["evaluations"] += 1
        out["distinct_nontrivial"] += 1 if r.get("nontrivial") else 0
        out["x_grid"]["combinations"][key] = out["x_grid"]["combinations"].get(key, 0) + 1
        if r["verdict"] == "violation":
            real, kn = split_known("C10", r["violations"], known)
            for v, kk in kn:
                out["known"][kk["id"]] = out["known"].get(kk["id"], 0) + 1
            if real:
                r["devices"] = 1
                out["violations"].append((r, real))
        if not out["samples"] and r.get("plan"):
            out["samples"].append({"grid_combination": key, "world": r["plan"]["world"], "lifetimes": r["plan"]["lifetimes"]})
    out["rule"] = "; plus a grid phase (x_grid): every solver class on every shipped problem"
    return out


def fidelity_phase(pools, prop, verif_seed, k, known):
    """In-process simulation versus real fresh processes + real SIGKILL on the same plans."""
    from .check import split_known

    futs = []
    for i in range(k):
        s = P.run_seed(prop + "-fidelity", verif_seed, i)
        futs.append((s, pools.submit_custom(P.devices_for(prop, s), "mdpsim.cases.run_fidelity", prop, s)))
    out = {"plans": 0, "agreed": 0, "real_sigkills": 0, "real_lifetimes": 0, "skipped": 0, "violations": [], "known": {}, "harness_errors": 0, "errors": []}
    for s, f in futs:
        try:
            r = f.result(timeout=900)
        except BaseException as e:  # noqa: BLE001
            try:
                r = pools.call_custom(P.devices_for(prop, s), "mdpsim.cases.run_fidelity", prop, s)
            except BaseException as e2:  # noqa: BLE001
                r = {"verdict": "harness_error", "error": f"worker failed twice: {e} / {e2}"}
        if r["verdict"] == "skipped":
            out["skipped"] += 1
            continue
        out["plans"] += 1
        if r["verdict"] == "harness_error":
            out["harness_errors"] += 1
            out["errors"].append(str(r.get("error"))[:800])
            print(f"HARNESS-ERROR fidelity seed={s}: {str(r.get('error'))[:1200]}")
            continue
        out["agreed"] += 1
        out["real_sigkills"] += r.get("real_kills", 0)
        out["real_lifetimes"] += r.get("lifetimes", 0)
        if r["verdict"] == "violation":
            real, kn = split_known(prop, r["violations"], known)
            for v, kk in kn:
                out["known"][kk["id"]] = out["known"].get(kk["id"], 0) + 1
            if real:
                r["devices"] = r["plan"].get("devices", 1)
                out["violations"].append((r, real))
    return out


def readme_phase(pools, prop, verif_seed, k):
    from . import cases as _cases
    from .check import load_known, split_known

    known = load_known()
    probe = dict(_cases.KF2_PROBE_PLAN, prop=prop)
    futs = [(0, pools.submit_custom(1, "mdpsim.cases.run_readme_order", prop, 0, probe))]
    for i in range(k):
        s = P.run_seed(prop + "-readme", verif_seed, i)
        futs.append((s, pools.submit_custom(1, "mdpsim.cases.run_readme_order", prop, s)))
    out = {"plans": 0, "agreed": 0, "skipped": 0, "real_lifetimes": 0, "value_dtypes": {}, "violations": [], "known": {}, "harness_errors": 0}
    for s, f in futs:
        try:
            r = f.result(timeout=900)
        except BaseException as e:  # noqa: BLE001
            r = {"verdict": "harness_error", "error": f"worker failed: {e}"}
        if r["verdict"] == "skipped":
            out["skipped"] += 1
            continue
        out["plans"] += 1
        if r["verdict"] == "harness_error":
            out["harness_errors"] += 1
            print(f"HARNESS-ERROR readme-order seed={s}: {str(r.get('error'))[:1200]}")
            continue
        out["real_lifetimes"] += r.get("lifetimes", 0)
        out["real_sigkills"] = out.get("real_sigkills", 0) + r.get("real_kills", 0)
        out["value_dtypes"][str(r.get("dtype"))] = out["value_dtypes"].get(str(r.get("dtype")), 0) + 1
        if r["verdict"] == "violation":
            real, kn = split_known(prop, r["violations"], known)
            for v, kk in kn:
                out["known"][kk["id"]] = out["known"].get(kk["id"], 0) + 1
            if real:
                r["devices"] = 1
                out["violations"].append((r, real))
        else:
            out["agreed"] += 1
    return out


def determinism_slice(pools, prop, results, k):
    ok = [r for r in results if r.get("verdict") in ("pass", "violation") and r.get("plan")][:: max(1, len(results) // max(1, k))][:k]
    futs = [(r, pools.submit_case(r["devices"], prop, r["seed"], r["plan"])) for r in ok]
    bad = []
    for r, f in futs:
        try:
            r2 = pools.result_or_retry(f, r["devices"], lambda r=r: pools.submit_case(r["devices"], prop, r["seed"], r["plan"]), timeout=400)
        except BaseException as e:  # noqa: BLE001
            bad.append({"seed": r["seed"], "error": str(e)})
            continue
        if r2.get("hist_digest") != r.get("hist_digest") or r2.get("verdict") != r.get("verdict"):
            bad.append({"seed": r["seed"], "first": r.get("hist_digest"), "second": r2.get("hist_digest")})
    return {"reexecuted": len(futs), "diverged": bad}


def finish(prop, tier, verif_seed, results, extra, det, known, pools, t0, shrink_enabled) -> int:
    harness = [r for r in results if r.get("verdict") == "harness_error"]
    not_run = [r for r in results if r.get("verdict") == "not_run"]
    executed = [r for r in results if r.get("verdict") in ("pass", "violation")]
    viol_runs, known_lines = [], {}
    for r in executed:
        if r["verdict"] != "violation":
            continue
        real, kn = split_known(prop, r["violations"], known)
        for v, k in kn:
            known_lines.setdefault(k["id"], [k, 0])[1] += 1
        if real:
            viol_runs.append((r, real))
    for ev in extra.get("violations", []):
        viol_runs.append(ev)
    for kid, cnt in extra.get("known", {}).items():
        k = next(x for x in known if x["id"] == kid)
        known_lines.setdefault(kid, [k, 0])[1] += cnt

    # ---- aggregate coverage ------------------------------------------------------------
    agg_checks, agg_probes, agg_stats, vol, joint = {}, {}, {}, {}, {}
    hashes = set()
    nontriv = set()
    for r in executed:
        for k, v in r.get("checks", {}).items():
            agg_checks[k] = agg_checks.get(k, 0) + v
        for k, v in r.get("probes", {}).items():
            agg_probes[k] = agg_probes.get(k, 0) + v
        for k, v in r.get("stats", {}).items():
            agg_stats[k] = agg_stats.get(k, 0) + v
        for k, v in (r.get("volume") or {}).items():
            vol[k] = vol.get(k, 0) + v
        for j in r.get("joint", []):
            joint[j] = joint.get(j, 0) + 1
        if r.get("plan_hash"):
            hashes.add(r["plan_hash"])
            if r.get("nontrivial"):
                nontriv.add(r["plan_hash"])
    wall = time.time() - t0
    samples = [_sample_of(r) for r in executed[:3]]
    faults = {k: v for k, v in agg_stats.items() if k.startswith(("kill@", "perturb/"))}
    evidence = {
        "property_id": prop,
        "tier": tier,
        "seed": verif_seed,
        "level": LEVEL[prop],
        "coverage": {
            "evaluations": len(executed) + int(extra.get("evaluations", 0)),
            "distinct_nontrivial": len(nontriv) + int(extra.get("distinct_nontrivial", 0)),
            "rule": "one evaluation = one seeded plan (world + lifetimes + writer schedule + kill points) executed against the real code; "
            "distinct = distinct plan hash; non-trivial = at least one oracle comparison beyond construction was evaluated on it"
            + (extra.get("rule", "")),
            "samples": samples + extra.get("samples", []),
            "exhaustive": bool(extra.get("exhaustive", False)),
            "oracle_evaluations": agg_checks,
            "probes": agg_probes,
            "faults_fired": faults,
            "other_counters": {k: v for k, v in agg_stats.items() if k not in faults},
            "simulated_volume": vol,
            "simulated_time": "not applicable: no claimed behaviour reads a clock; volume is reported in lifetimes / solve calls / sweeps / saves / restores",
            "distinct_joint_states": len(joint),
            "joint_state_measure": "(solver, async?, seam kind, writer phase, #committed in {0,1,2+}, deletion pending?, lifetime index in {1,2,3+}, perturbation kind) per kill",
            "joint_states_top": dict(sorted(joint.items(), key=lambda kv: -kv[1])[:25]),
            "runs_per_hour": round(len(executed) / max(wall, 1e-9) * 3600),
            "seeds": {"first_index": 0, "count": len(results), "derivation": "sha256(property:VERIF_SEED:index)"},
            "harness_errors": len(harness),
            "not_run_within_wall_cap": len(not_run),
            "determinism_slice": det,
            "known_findings_hit": {k: c for k, (_, c) in known_lines.items()},
            "components": COMPONENTS,
            **{k: v for k, v in extra.items() if k.startswith("x_")},
        },
        "assumptions": [
            "Orbax thread names and temp-dir / rename commit protocol of the pinned orbax-checkpoint version (asserted at run time: a missing seam is a HARNESS-ERROR)",
            "a process kill loses no completed system call (page cache survives); power loss is not modelled",
            "bitwise reproducibility of XLA:CPU results between two executions with identical shapes (checked by the determinism slice)",
        ],
        "wall_s": round(wall, 2),
        "violations": len(viol_runs),
    }
    OUT = os.environ.get("MDPSIM_OUT", VERIF)
    os.makedirs(os.path.join(OUT, "evidence"), exist_ok=True)

    rc = 0
    for kid, (k, cnt) in sorted(known_lines.items()):
        print(f"KNOWN-FINDING: property={prop} {kid} {k['what']} (hit {cnt}x in this run)")
    if viol_runs:
        rc = 1
        reported = set()
        t_shrink0 = time.time()
        for r, real in viol_runs[:60]:
            classes = {v["class"] for v in real}
            key = tuple(sorted(classes))
            if key in reported or len(reported) >= 6:
                continue
            reported.add(key)
            plan, trace, nexec = r["plan"], [], 0
            # minimisation budget: the first three distinct violation classes, 5 minutes in total
            if shrink_enabled and r.get("plan") and len(reported) <= 3 and time.time() - t_shrink0 < 300:
                try:
                    plan, trace, nexec = shrink(pools, prop, r, classes, budget_s=100.0, max_exec=45)
                except BaseException as e:  # noqa: BLE001
                    trace = [f"shrinking failed: {e}"]
            # confirm in a fresh process and take the digest of the minimised plan
            hd = r.get("hist_digest")
            try:
                r2 = pools.submit_case(plan.get("devices", 1), prop, r["seed"], plan).result(timeout=400)
                hd = r2.get("hist_digest", hd)
                if r2.get("violations"):
                    real = [v for v in r2["violations"] if v["class"] in classes] or real
            except BaseException:  # noqa: BLE001
                pass
            path = write_replay(prop, r["seed"], plan, real, hd, trace)
            for v in real[:3]:
                print(f"  {v['class']}: {v['msg']}")
            print(f"  minimised in {nexec} executions: {trace}")
            print(f"VIOLATION property={prop} replay={path}")
    if extra.get("harness_errors"):
        print(f"HARNESS-ERROR: {extra['harness_errors']} cases of the enumeration / fidelity phases could not be executed or disagreed")
        if rc == 0:
            rc = 2
    if getattr(pools, "retried", 0) or getattr(pools, "replaced", 0):
        print(f"NOTE: worker processes died during the run; {getattr(pools, 'retried', 0)} cases were re-executed in fresh processes")
    if harness or det["diverged"]:
        for r in harness[:5]:
            print(f"HARNESS-ERROR seed={r.get('seed')} {str(r.get('error'))[:1500]}")
        for d in det["diverged"][:5]:
            print(f"HARNESS-ERROR determinism: {d}")
        if rc == 0:
            rc = 2
    if not_run and rc == 0:
        frac = len(not_run) / max(1, len(results))
        print(f"NOTE: {len(not_run)} of {len(results)} planned runs not executed within the wall cap")
        if frac > 0.5:
            print("HARNESS-ERROR: more than half of the planned runs did not execute")
            rc = 2
    json.dump(evidence, open(os.path.join(OUT, "evidence", f"{prop}.json"), "w"), indent=1, sort_keys=True, default=str)
    print(
        f"[{prop}/{tier}] executed={len(executed)} distinct_nontrivial={evidence['coverage']['distinct_nontrivial']} violations={len(viol_runs)} "
        f"harness_errors={len(harness)} wall={wall:.1f}s -> exit {rc}",
        flush=True,
    )
    return rc
