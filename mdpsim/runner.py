"""Process pools: one pool per emulated device count (the XLA flag is per process)."""

from __future__ import annotations

import concurrent.futures as cf
import faulthandler
import multiprocessing as mp
import os
import sys
import time

from . import boot

CASE_TIMEOUT_S = 240


def _init(devices: int):
    # executed in the worker before anything imports jax
    for k, v in boot.child_env(devices).items():
        os.environ[k] = v
    boot.init_worker(devices)


def _task(prop: str, seed: int, explicit_plan, keep_hist: bool):
    from . import cases

    faulthandler.dump_traceback_later(CASE_TIMEOUT_S, exit=True)
    marker = os.environ.get("MDPSIM_TEST_KILL_ONCE")  # self-test of the recovery path only
    if marker and not os.path.exists(marker):
        open(marker, "w").close()
        os._exit(3)
    try:
        return cases.run_case(prop, seed, explicit_plan, keep_hist)
    finally:
        faulthandler.cancel_dump_traceback_later()


def _custom(fn_path: str, args: tuple):
    import importlib

    mod, fn = fn_path.rsplit(".", 1)
    faulthandler.dump_traceback_later(CASE_TIMEOUT_S, exit=True)
    try:
        return getattr(importlib.import_module(mod), fn)(*args)
    finally:
        faulthandler.cancel_dump_traceback_later()


class Pools:
    def __init__(self, total_workers: int | None = None):
        self.total = total_workers or int(os.environ.get("MDPSIM_WORKERS", "0")) or min(16, os.cpu_count() or 4)
        self.pools: dict[int, cf.ProcessPoolExecutor] = {}
        self.ctx = mp.get_context("spawn")

    def plan_workers(self, device_counts: dict[int, int]):
        """device_counts: devices -> number of tasks.  Allocate workers proportionally to cost."""
        cost = {d: n * (1.0 + 0.25 * (d - 1)) for d, n in device_counts.items() if n}
        tot = sum(cost.values()) or 1.0
        alloc = {d: max(1, int(round(self.total * c / tot))) for d, c in cost.items()}
        # never more workers than tasks
        for d in alloc:
            alloc[d] = min(alloc[d], device_counts[d])
        for d, w in alloc.items():
            self.get(d, w)
        return alloc

    def get(self, devices: int, workers: int | None = None) -> cf.ProcessPoolExecutor:
        if devices not in self.pools:
            self.pools[devices] = cf.ProcessPoolExecutor(
                max_workers=workers or max(1, self.total // 2),
                mp_context=self.ctx,
                initializer=_init,
                initargs=(devices,),
            )
        return self.pools[devices]

    def _submit(self, devices: int, fn, *args):
        """Submit; a pool broken by a dead worker (watchdog exit) is replaced once - the cases
        that were in it have already been reported as harness errors."""
        from concurrent.futures.process import BrokenProcessPool

        try:
            return self.get(devices).submit(fn, *args)
        except BrokenProcessPool:
            old = self.pools.pop(devices, None)
            if old is not None:
                old.shutdown(wait=False, cancel_futures=True)
            self.replaced = getattr(self, "replaced", 0) + 1
            return self.get(devices).submit(fn, *args)

    def result_or_retry(self, fut, devices: int, resubmit, timeout: float = 600):
        """Result of `fut`; if its worker died, replace the pool and run `resubmit()` once more."""
        try:
            return fut.result(timeout=timeout)
        except BaseException as e:  # noqa: BLE001
            if "BrokenProcessPool" not in type(e).__name__ and "terminated abruptly" not in str(e):
                raise
            old = self.pools.pop(devices, None)
            if old is not None:
                old.shutdown(wait=False, cancel_futures=True)
            self.retried = getattr(self, "retried", 0) + 1
            return resubmit().result(timeout=timeout)

    def call_custom(self, devices: int, fn_path: str, *args, timeout: float = 900):
        """submit_custom + result, re-executed once if the worker died."""
        try:
            return self.submit_custom(devices, fn_path, *args).result(timeout=timeout)
        except BaseException as e:  # noqa: BLE001
            if "BrokenProcessPool" not in type(e).__name__ and "terminated abruptly" not in str(e):
                raise
            old = self.pools.pop(devices, None)
            if old is not None:
                old.shutdown(wait=False, cancel_futures=True)
            self.retried = getattr(self, "retried", 0) + 1
            return self.submit_custom(devices, fn_path, *args).result(timeout=timeout)

    def submit_case(self, devices: int, prop: str, seed: int, explicit_plan=None, keep_hist=False):
        return self._submit(devices, _task, prop, seed, explicit_plan, keep_hist)

    def submit_custom(self, devices: int, fn_path: str, *args):
        return self._submit(devices, _custom, fn_path, args)

    def shutdown(self):
        for p in self.pools.values():
            p.shutdown(wait=False, cancel_futures=True)
        self.pools.clear()


def run_cases(pools: Pools, prop: str, items: list[tuple[int, int, int]], deadline: float | None = None, on_result=None, _retry: bool = True):
    """items: (index, seed, devices).  Returns list of results (index order).  A broken pool or
    a timeout yields a harness_error result for the affected items - never a silent pass."""
    chunk = int(os.environ.get("MDPSIM_CHUNK", "600"))
    if len(items) > chunk:
        # worker recycling by hand: fresh processes for every chunk of cases
        # (ProcessPoolExecutor(max_tasks_per_child=...) can deadlock on Python 3.12.1, gh-115634)
        res = []
        for i in range(0, len(items), chunk):
            res += run_cases(pools, prop, items[i : i + chunk], deadline=deadline, on_result=on_result)
            pools.shutdown()
        return res
    futs = {}
    counts: dict[int, int] = {}
    for _, _, d in items:
        counts[d] = counts.get(d, 0) + 1
    pools.plan_workers(counts)
    for idx, seed, d in items:
        futs[pools.submit_case(d, prop, seed)] = (idx, seed, d)
    out = {}
    pending = set(futs)
    while pending:
        tmo = None if deadline is None else max(0.0, deadline - time.time())
        done, pending = cf.wait(pending, timeout=tmo if tmo is not None else None, return_when=cf.FIRST_COMPLETED)
        if not done and deadline is not None and time.time() >= deadline:
            for f in pending:
                f.cancel()
            for f in pending:
                idx, seed, d = futs[f]
                if f.cancelled() or not f.done():
                    out[idx] = {"prop": prop, "seed": seed, "verdict": "not_run", "index": idx, "devices": d}
            break
        for f in done:
            idx, seed, d = futs[f]
            try:
                r = f.result()
            except BaseException as e:  # noqa: BLE001 - BrokenProcessPool, watchdog exit, ...
                r = {"prop": prop, "seed": seed, "verdict": "harness_error", "error": f"worker failed: {type(e).__name__}: {e}", "violations": [], "checks": {}, "probes": {}, "stats": {}}
            r["index"], r["devices"] = idx, d
            out[idx] = r
            if on_result:
                on_result(r)
    # a worker that died (native crash of XLA under overload, stall watchdog) takes its whole pool
    # with it: every case that was in that pool is re-executed once in a fresh pool - only a
    # second failure is reported as a harness error
    if _retry:
        lost = [(idx, r["seed"], r["devices"]) for idx, r in out.items() if r.get("verdict") == "harness_error" and "worker failed" in str(r.get("error"))]
        if lost and (deadline is None or time.time() < deadline):
            for d in {d for _, _, d in lost}:
                old = pools.pools.pop(d, None)
                if old is not None:
                    old.shutdown(wait=False, cancel_futures=True)
            pools.retried = getattr(pools, "retried", 0) + len(lost)
            for r in run_cases(pools, prop, lost, deadline=deadline, on_result=on_result, _retry=False):
                out[r["index"]] = r
    return [out[i] for i in sorted(out)]
