"""Bounded-exhaustive phases for C09 and C12 (complementing the seeded sampling).

C09: for small seeded worlds, *every* interruption iteration k = 1 .. end-1 of the uninterrupted
     run, for every restore route, with a clean stop at k (and, in thorough, a second clean stop).
C12: for a seeded solver/problem, the whole box  f in 1..4  x  m in 1..3  x  run length in
     1..R (R reaches past convergence), synchronous and asynchronous, as two solve() calls
     where the length allows it.
"""

from __future__ import annotations

import random
import shutil

from . import plan as P

ROUTES = [("restore", False), ("restore", True), ("load_checkpoint", False), ("load_checkpoint", True)]


def _world(seed: int, converge: bool):
    rng = random.Random(seed)
    cls = rng.choice(P.DET_SOLVERS)
    prob = P.draw_problem(rng, need_anchor=cls in ("RVI", "PER"))
    prob["n"] = rng.randint(3, 9)
    sol = P.draw_solver(rng, cls, prob["n"], never_converge=not converge, shuffle=False)
    if cls == "PI":
        sol["kw"]["max_eval_iter"] = rng.choice([1, 2, 3, 5])
    return rng, {"problem": prob, "solver": sol, "ckpt": P.draw_ckpt(rng)}


def list_c09(seed: int, tier: str) -> dict:
    from . import cases
    from . import props as Q

    rng, world = _world(seed, converge=True)
    Tmax = rng.randint(6, 10) if tier == "quick" else rng.randint(8, 14)
    root = cases.scratch_root()
    try:
        ctl = Q.run_control(world, Tmax, root)
    finally:
        shutil.rmtree(root, ignore_errors=True)
    if not ctl.ok:
        return {"seed": seed, "world": world, "error": f"control failed: {ctl.exc} {ctl.msg}", "plans": []}
    plans = []
    for k in range(1, ctl.end_it):
        for route, new_dir in ROUTES:
            lts = [
                {"route": "construct", "ops": [{"op": "solve_to", "it": k}, {"op": "wait"}], "writer": {"mode": "lazy"}},
                {"route": route, "new_dir": new_dir, "fallback": False, "ops": [{"op": "solve_to", "it": Tmax}, {"op": "wait"}], "writer": {"mode": "eager"}},
            ]
            plans.append({"prop": "C09", "seed": seed, "devices": 1, "world": world, "Tmax": Tmax, "enumerated": True, "lifetimes": lts})
        if tier == "thorough":
            for k2 in range(k + 1, ctl.end_it):
                lts = [
                    {"route": "construct", "ops": [{"op": "solve_to", "it": k}, {"op": "wait"}], "writer": {"mode": "eager"}},
                    {"route": "restore", "ops": [{"op": "solve_to", "it": k2}, {"op": "wait"}], "writer": {"mode": "lazy"}},
                    {"route": "load_checkpoint", "ops": [{"op": "solve_to", "it": Tmax}, {"op": "wait"}], "writer": {"mode": "eager"}},
                ]
                plans.append({"prop": "C09", "seed": seed, "devices": 1, "world": world, "Tmax": Tmax, "enumerated": True, "lifetimes": lts})
    return {"seed": seed, "world": world, "T": Tmax, "end_it": ctl.end_it, "converged": ctl.converged, "plans": plans, "space": f"k in 1..{ctl.end_it - 1} x 4 routes" + (" + all pairs k<k2" if tier == "thorough" else "")}


def list_c12(seed: int, tier: str) -> dict:
    from . import cases
    from . import props as Q

    rng, world = _world(seed, converge=True)
    R = 9 if tier == "quick" else 12
    root = cases.scratch_root()
    try:
        ctl = Q.run_control(world, R, root)
    finally:
        shutil.rmtree(root, ignore_errors=True)
    if not ctl.ok:
        return {"seed": seed, "world": world, "error": f"control failed: {ctl.exc} {ctl.msg}", "plans": []}
    asyn = world["ckpt"]["async"]
    plans = []
    per_cleared = world["solver"]["cls"] == "PER" and world["solver"]["kw"].get("clear_value_history_on_convergence", True)
    for f in range(1, 5):
        for m in range(1, 4):
            for T in range(1, R + 1):
                w = dict(world)
                w["ckpt"] = {"f": f, "m": m, "async": asyn}
                ops = [{"op": "solve_to", "it": T}, {"op": "wait"}]
                if T >= 3 and not (per_cleared and ctl.converged and T >= ctl.end_it):
                    ops = [{"op": "solve_to", "it": T // 2}] + ops  # two calls, no wait in between
                lts = [{"route": "construct", "ops": ops, "writer": {"mode": rng.choice(["lazy", "eager"])}}]
                plans.append({"prop": "C12", "seed": seed, "devices": 1, "world": w, "Tmax": R, "enumerated": True, "load_contents": True, "lifetimes": lts})
    return {"seed": seed, "world": world, "T": R, "end_it": ctl.end_it, "converged": ctl.converged, "plans": plans, "space": f"f in 1..4 x m in 1..3 x run length in 1..{R} (control stops at {ctl.end_it}, converged={ctl.converged})"}


def run(pools, prop: str, tier: str, verif_seed: int, deadline, known) -> dict:
    import time

    from .check import split_known

    n_worlds = {"C09": (1, 24), "C12": (2, 10)}[prop][0 if tier == "quick" else 1]
    fn = "mdpsim.enum_grid.list_c09" if prop == "C09" else "mdpsim.enum_grid.list_c12"
    futs = [pools.submit_custom(1, fn, P.run_seed(prop + "-grid", verif_seed, i), tier) for i in range(n_worlds)]
    out = {"violations": [], "known": {}, "evaluations": 0, "distinct_nontrivial": 0, "samples": [], "harness_errors": 0, "x_grid": {"worlds": []}}
    all_done = True
    for f in futs:
        try:
            w = f.result(timeout=600)
        except BaseException as e:  # noqa: BLE001
            out["x_grid"]["worlds"].append({"error": f"listing failed: {e}"})
            out["harness_errors"] += 1
            all_done = False
            continue
        if w.get("error"):
            out["x_grid"]["worlds"].append({"seed": w["seed"], "error": w["error"]})
            all_done = False
            continue
        if deadline is not None and time.time() > deadline - 30:
            out["x_grid"]["worlds"].append({"seed": w["seed"], "skipped": "wall cap"})
            all_done = False
            continue
        pf = [(p, pools.submit_case(1, prop, w["seed"], p)) for p in w["plans"]]
        done_n, bad_n, herr = 0, 0, 0
        for p, fu in pf:
            try:
                r = pools.result_or_retry(fu, 1, lambda p=p: pools.submit_case(1, prop, w["seed"], p), timeout=600)
            except BaseException as e:  # noqa: BLE001
                r = {"verdict": "harness_error", "error": str(e)}
            if r["verdict"] == "harness_error":
                herr += 1
                continue
            done_n += 1
            out["evaluations"] += 1
            if r.get("nontrivial"):
                out["distinct_nontrivial"] += 1
            if r["verdict"] == "violation":
                real, kn = split_known(prop, r["violations"], known)
                for v, k in kn:
                    out["known"][k["id"]] = out["known"].get(k["id"], 0) + 1
                if real:
                    bad_n += 1
                    r["devices"] = 1
                    out["violations"].append((r, real))
        complete = done_n == len(w["plans"]) and herr == 0
        all_done = all_done and complete
        out["harness_errors"] += herr
        out["x_grid"]["worlds"].append(
            {"seed": w["seed"], "solver": w["world"]["solver"]["cls"], "n_states": w["world"]["problem"]["n"], "ckpt": w["world"]["ckpt"], "space": w["space"], "plans": len(w["plans"]), "executed": done_n, "violating": bad_n, "exhaustive": complete}
        )
        if not out["samples"] and w["plans"]:
            out["samples"].append({"grid_world": w["world"], "space": w["space"], "first_plan_lifetimes": w["plans"][0]["lifetimes"]})
    out["x_grid"]["exhaustive_for_listed_worlds"] = bool(all_done and out["x_grid"]["worlds"])
    out["rule"] = "; plus a bounded-exhaustive grid phase (x_grid): every point of the stated space of the listed small worlds, one evaluation per point"
    return out
