"""C08: stopping rule, iteration accounting and composability of solve() - fault-free call
histories, refined operation by operation against the independent NumPy reference."""

from __future__ import annotations

import random

import numpy as np

from . import plan as P
from . import props as Q
from . import refmodel as R
from .seams import HarnessError
from .world import same_state

GUARD = 1e-6


def atol_for(V) -> float:
    return 1e-9 * max(1.0, float(np.max(np.abs(V))))


class RefDriver:
    """Drives the reference model alongside a recorded lifetime of the real solver."""

    def __init__(self, world: dict, boot: dict):
        self.world = world
        sk = world["solver"]
        self.cls = sk["cls"]
        kw = sk["kw"]
        self.mdp = R.MDP({k: v for k, v in world["problem"].items() if k not in ("kind", "cfg")})
        self.gamma = float(boot["gamma"])  # the discount factor the solver actually holds
        self.shape = tuple(boot["shape"][:3])
        self.n_pad = boot["shape"][3]
        if self.cls == "PI":
            self.ref = R.RefPI(self.mdp, self.gamma, kw["epsilon"], kw.get("convergence_test", "span"), kw.get("max_eval_iter", 100), kw.get("reset_values_for_each_policy_eval", False))
        else:
            self.ref = R.RefSolver(self.mdp, self.cls, self.gamma, kw["epsilon"], kw.get("convergence_test", "span"), kw.get("period", 1))
        self.thr = self.ref.threshold

    def expected_shape(self, n_devices: int):
        return R.batch_shape(self.mdp.n, self.world["solver"]["kw"]["max_batch_size"], n_devices)

    def step_vi(self, perm=None):
        """One sweep of the VI family; returns (values, measure)."""
        if self.cls == "SA":
            m = self.ref.step(lambda V: self.mdp.block_gs(V, self.gamma, self.shape, perm))
        else:
            m = self.ref.step()
        return self.ref.V, m


def build(prop: str, rng: random.Random, seed: int, root: str):
    cls = rng.choice(["VI", "VI", "RVI", "PER", "PER", "SA", "SA", "PI"])
    prob = P.draw_problem(rng, need_anchor=cls in ("RVI", "PER"))
    never = rng.random() < 0.25
    sol = P.draw_solver(rng, cls, prob["n"], never_converge=never, shuffle=None)
    if cls in ("VI", "SA", "PI") and rng.random() < 0.2:
        # discount factors on and around the boundaries of the documented domain
        sol["kw"]["gamma"] = rng.choice([0.01, 0.1, 0.99, 0.999, 0.9999, 0.99999, 0.999995, 0.9999999] + ([1.0] if cls != "PI" else []))
        never = False
        sol["kw"]["epsilon"] = float(f"{P.loguniform(rng, 1e-3, 50.0):.3g}")
    if not never and rng.random() < 0.35:
        # loose tolerances: the stop rule fires within the first sweeps (for the periodic solver:
        # a measure that would be small before a full period has elapsed)
        sol["kw"]["epsilon"] = float(f"{P.loguniform(rng, 0.5, 200.0):.3g}")
    world = {"problem": prob, "solver": sol, "ckpt": {"f": 0, "m": 1, "async": True}}
    ncalls = rng.choice([1, 2, 2, 3, 3, 4])
    ks = [rng.randint(1, 7 if cls != "PI" else 3) for _ in range(ncalls)]
    T = sum(ks)
    ctl = Q.run_control(world, T, root)
    plan = {"prop": prop, "seed": seed, "devices": P.devices_for(prop, seed), "world": world, "Tmax": T}
    if ctl.ok and cls == "PER" and sol["kw"].get("clear_value_history_on_convergence", True):
        # after convergence the history is cleared (documented option): no further calls
        acc, keep = 0, []
        for k in ks:
            keep.append(k)
            acc += k
            if ctl.converged and acc >= ctl.end_it:
                break
        ks = keep
    plan["lifetimes"] = [{"route": "construct", "ops": [{"op": "solve", "k": k} for k in ks]}]
    return plan, ctl


def evaluate(prop: str, plan: dict, run, ctl):
    V = Q.Verdicts(prop)
    Q.check_calls(V, prop, run)
    h = run.hist["lifetimes"][0]
    if h["boot"]["result"] != "ok":
        V.bad(f"{prop}:construction_failed", f"{h['boot']['exc']}: {h['boot'].get('msg')}")
        return V
    world = plan["world"]
    drv = RefDriver(world, h["boot"])
    refine(V, prop, drv, run, 0, run.boots[0]["state"])
    # composability: the sequence of calls equals one call with the summed limit, as long as no
    # earlier call was stopped by convergence
    calls = [c for c in h["calls"] if "it1" in c]
    early = [c for c in calls[:-1] if c["converged"]]
    if calls and not early and len(calls) == len(plan["lifetimes"][0]["ops"]):
        if True:
            for it, vd, pd in h["sweeps"]:
                if it in ctl.sweeps and ctl.sweeps[it] != (vd, pd):
                    V.bad(f"{prop}:split_calls_diverge", f"state after sweep {it} of solve({'+'.join(str(c['k']) for c in calls)}) differs from solve({plan['Tmax']})")
                    break
            else:
                V.ok("split_trajectory_equal")
        fin = run.finals[0]
        if fin is not None and int(fin["iteration"]) == ctl.end_it:
            bad = same_state(ctl.final, fin)
            if bad:
                V.bad(f"{prop}:split_calls_final_differs", f"fields {bad} differ between solve({'), solve('.join(str(c['k']) for c in calls)}) and solve({plan['Tmax']})")
            else:
                V.ok("split_final_equal")
        elif fin is not None:
            V.bad(f"{prop}:split_calls_iteration_differs", f"split calls ended at iteration {int(fin['iteration'])}, single call at {ctl.end_it}")
    elif early:
        V.probe("call_after_convergence")
    return V


def refine(V, prop, drv: RefDriver, run, li: int, boot_state: dict, check_stop: bool = True):
    """Operation-by-operation refinement of lifetime `li` against the reference."""
    h = run.hist["lifetimes"][li]
    raw = run.sweeps[li]
    mdp = drv.mdp
    # initial values: the problem's own initial estimates, in natural order
    if not np.allclose(boot_state["values"], mdp.v0, rtol=0, atol=atol_for(mdp.v0)) or boot_state["values"].shape != (mdp.n,):
        V.bad(f"{prop}:initial_values", "initial value estimates differ from the problem's initial_value per state")
        return
    if drv.cls == "PI":
        return refine_pi(V, prop, drv, run, li, boot_state)
    perms = run.perms.get(li)
    shuffled = Q.is_shuffled(drv.world)
    measures = {}
    for idx, (it, arrs, conv) in enumerate(raw):
        perm = None
        if drv.cls == "SA":
            if perms is None or idx >= len(perms):
                raise HarnessError("no recorded permutation for a semi-async sweep")
            perm = perms[idx]
            if shuffled:
                if perm is None or sorted(np.asarray(perm).tolist()) != list(range(mdp.n)):
                    V.bad(f"{prop}:not_a_permutation", f"sweep {it}: recorded update order is not a permutation of all states")
                    return
            elif perm is not None:
                V.bad(f"{prop}:unexpected_shuffle", f"sweep {it}: states were shuffled although shuffle_states is off")
                return
        Vref, m = drv.step_vi(perm)
        got = arrs["values"]
        if got.shape != Vref.shape or not np.allclose(got, Vref, rtol=0, atol=atol_for(Vref)):
            d = float(np.max(np.abs(got - Vref))) if got.shape == Vref.shape else float("nan")
            V.bad(f"{prop}:values_not_reference_backups", f"after sweep {it} the values differ from {it} reference backups of the initial estimates (max |diff| {d:.3g}, shape {got.shape})")
            return
        V.ok("sweep_matches_reference")
        measures[it] = m
    if drv.cls == "RVI":
        fin = run.finals[li]
        if fin is not None and raw and abs(float(fin["gain"]) - drv.ref.gain) > atol_for(np.array([drv.ref.gain])):
            V.bad(f"{prop}:gain", f"gain {float(fin['gain'])} differs from reference {drv.ref.gain}")
    if not check_stop:
        return
    thr = drv.thr
    pos = 0
    for ci, c in enumerate(h["calls"]):
        if "it1" not in c:
            continue
        its = list(range(c["it0"] + 1, c["it1"] + 1))
        for j, it in enumerate(its):
            m = measures.get(it)
            if m is None:
                continue
            if abs(m - thr) <= GUARD * thr + 1e-12 * max(1.0, float(np.max(np.abs(drv.ref.V)))):
                V.probe("guard_band_inconclusive")
                continue
            last = j == len(its) - 1
            if not last and m < thr:
                V.bad(f"{prop}:missed_stop", f"call {ci}: the documented measure fell below the threshold at sweep {it} ({m:.6g} < {thr:.6g}) but solve() continued")
            if last and c["sweeps"] < c["k"] and not m < thr:
                V.bad(f"{prop}:early_stop", f"call {ci}: solve({c['k']}) stopped after {c['sweeps']} sweeps at iteration {it} although the documented measure {m:.6g} is not below the threshold {thr:.6g}")
            if last and c["sweeps"] < c["k"] and m < thr:
                V.ok("stopped_at_first_sweep_below_threshold")
            if last and bool(c["converged"]) != bool(m < thr):
                V.bad(f"{prop}:convergence_report", f"call {ci}: solver's own measure says converged={c['converged']} at iteration {it}, reference measure {m:.6g} vs threshold {thr:.6g}")
        pos += len(its)


def refine_pi(V, prop, drv: RefDriver, run, li: int, boot_state: dict):
    h = run.hist["lifetimes"][li]
    raw = run.sweeps[li]
    mdp, ref = drv.mdp, drv.ref
    pol0 = mdp.action_index(boot_state["policy"])
    if (pol0 < 0).any():
        V.bad(f"{prop}:policy_not_in_action_space", "initial policy holds vectors outside the action space")
        return
    gs = mdp.greedy_set(np.zeros(mdp.n), drv.gamma)
    if not gs[np.arange(mdp.n), pol0].all():
        V.bad(f"{prop}:initial_policy", "initial policy does not maximise the immediate expected reward")
        return
    ref.pol = pol0
    prev_pol = pol0
    changed = {}
    for it, arrs, conv in raw:
        ref.it += 1
        Vref = ref.evaluate(ref.pol, ref.V0.copy() if ref.reset else ref.V)
        ref.V = Vref
        got = arrs["values"]
        if ref.ambiguous:
            # an evaluation stop decision fell inside the guard band: the number of evaluation
            # sweeps may legitimately differ by rounding - nothing further is decidable here
            V.probe("guard_band_inconclusive")
            return
        if got.shape != Vref.shape or not np.allclose(got, Vref, rtol=0, atol=1e-7 * max(1.0, float(np.max(np.abs(Vref))))):
            V.bad(f"{prop}:pi_values_not_reference", f"iteration {it}: evaluated values differ from the documented truncated evaluation (max |diff| {float(np.max(np.abs(got - Vref))):.3g})")
            return
        pol = mdp.action_index(arrs["policy"])
        if (pol < 0).any():
            V.bad(f"{prop}:policy_not_in_action_space", f"iteration {it}: policy holds vectors outside the action space")
            return
        ok = mdp.greedy_set(got, drv.gamma, tol=1e-7)[np.arange(mdp.n), pol]
        if not ok.all():
            V.bad(f"{prop}:pi_policy_not_greedy", f"iteration {it}: improved policy is not greedy for the evaluated values at states {np.where(~ok)[0].tolist()[:5]}")
            return
        V.ok("pi_iteration_matches_reference")
        changed[it] = int((pol != prev_pol).sum())
        if int(round(conv)) != changed[it]:
            V.bad(f"{prop}:pi_change_count", f"iteration {it}: solver reports {int(round(conv))} changed states, recorded policies differ in {changed[it]}")
        ref.pol = pol
        prev_pol = pol
    for ci, c in enumerate(h["calls"]):
        if "it1" not in c:
            continue
        its = list(range(c["it0"] + 1, c["it1"] + 1))
        for j, it in enumerate(its):
            if it not in changed:
                continue
            last = j == len(its) - 1
            if not last and changed[it] == 0:
                V.bad(f"{prop}:missed_stop", f"call {ci}: policy was stable at iteration {it} but solve() continued")
            if last and c["sweeps"] < c["k"] and changed[it] != 0:
                V.bad(f"{prop}:early_stop", f"call {ci}: solve({c['k']}) stopped after {c['sweeps']} iterations although {changed[it]} states changed action")
            if last and c["sweeps"] < c["k"] and changed[it] == 0:
                V.ok("pi_stopped_when_policy_stable")
