"""Seams: the simulator owns the progress of Orbax's background writer.

* one `sys.addaudithook` turns Python-visible file-system mutations under the
  run's root into *gates* (item commit, step commit, begin of deletion of an
  expired step, config.yaml write, creation of the temp dir of a save);
* `threading.Thread.start` is wrapped once so that Orbax's commit threads park
  at their entry (writer phase W0) and `save_finalize` signals completion.

Real threads, real Orbax, real files; what is simulated is *who runs*: a
thread reaching a closed gate parks until the plan opens it, and the main
thread waits (condition variable, no sleeps) until the writer is parked at its
next gate or done.  Decisions are lookups by gate name, never by arrival order.
"""

from __future__ import annotations

import re
import sys
import threading
import time

PHASES = ["W0", "W1", "W2", "W3", "W4"]
BG_PREFIXES = (
    "np_type_handler",
    "array_type_handler",
    "serialize_shardings",
    "write_metadata_after_commits",
    "async_save",
    "save_finalize",
)
# every thread the pinned Orbax itself starts from the thread that called save()
_KNOWN_THREADS = re.compile(
    r"^(np_type_handler|array_type_handler|serialize_shardings|write_metadata_after_commits|async_save|save_finalize"
    r"|asyncio_|Worker_|ScanThread|metadata_store_|ThreadPoolExecutor-|Thread-\d+ \((_target_setting_result|_do_shutdown)\))"
)
_pat_meta = re.compile(r"/(\d+)(?:\.orbax-checkpoint-tmp)?/_CHECKPOINT_METADATA$")
_pat_item = re.compile(r"/(\d+)\.orbax-checkpoint-tmp/default\.orbax-checkpoint-tmp$")
_pat_step = re.compile(r"/(\d+)\.orbax-checkpoint-tmp$")
WAIT_S = 45.0


class HarnessError(Exception):
    """The harness itself failed (seam missing, stall, ...): never a verdict."""


class SimCrash(BaseException):
    """Unwinds the main thread at a kill point (BaseException: passes through `except Exception`)."""


class Sim:
    def __init__(self):
        self.cv = threading.Condition()
        self.cb_lock = threading.RLock()
        self.root = None
        self.reset(None)

    # -- lifecycle -----------------------------------------------------------
    def reset(self, root: str | None, block: bool = True):
        with self.cv:
            self.root = root
            self.active = root is not None
            self.block = block  # False: synchronous checkpointing - gates are observation points only
            self.parked: set[str] = set()
            self.open: set[str] = set()
            self.open_all = False
            self.entry_hold = False
            self.open_deletes = False
            self.phase_of: dict[int, str] = {}
            self.entry_parked = 0
            self.bg_started = 0
            self.live_bg = 0  # parked-or-running writer threads (Orbax commit threads + foreign ones)
            self.in_save = False  # main is inside solver.save()
            self.cur_step = None  # label of the save most recently handed to the writer
            self.main_ident = threading.get_ident()
            self.foreign_started = 0
            self.done: set[int] = set()
            self.started: list[int] = []  # steps whose temp dir was created (a real save began)
            self.meta_opened: set[int] = set()  # steps whose _CHECKPOINT_METADATA was created in the temp dir
            self.passed: list[str] = []  # gate names passed, first arrival only
            self.seen: set[str] = set()
            self.on_gate = None  # callback(name) executed in the arriving thread before parking
            self.events: list = []
            self.cv.notify_all()

    def _log(self, *ev):
        self.events.append(tuple(ev))

    # -- gates (called from arbitrary threads through the audit hook) -----------
    def gate(self, name: str, blocking: bool = True):
        # the callback (a snapshot = the kill instant) must be atomic with respect to every
        # other thread that reaches a gate: e.g. parallel deleter workers arriving at the same
        # gate wait here until the snapshot of the directory is complete
        with self.cb_lock:
            cb = None
            with self.cv:
                first = name not in self.seen
                if first:
                    self.seen.add(name)
                    cb = self.on_gate
            if first and cb is not None:
                cb(name)
        if threading.get_ident() == self.main_ident:
            # the thread executing solve() is never parked: what it does itself is program
            # order, not writer progress (parking it could only deadlock the run)
            blocking = False
        if name == f"delete:{self.cur_step}":
            # files removed inside the directory of the very step that is being written are part
            # of that write (an in-place write protocol), not retention deletion of an old step
            blocking = False
        if self.in_save and name.startswith("delete:"):
            # a deletion while the solver thread is inside save(): on the pinned tree retention
            # deletion belongs to the writer pipeline and cannot happen here (the previous writer
            # is finished, the new one parked at its entry) - so this is the solver deleting
            # through Orbax's worker pool and waiting for it: parking the workers would deadlock
            blocking = False
        with self.cv:
            if blocking and self.block and not self._is_open(name):
                self.parked.add(name)
                self.cv.notify_all()
                while not self._is_open(name):
                    self.cv.wait()
                self.parked.discard(name)
            if first:
                self.passed.append(name)
            self.cv.notify_all()

    def forget(self, step: int):
        """A new save of a step label that was saved before in this lifetime starts from scratch."""
        with self.cv:
            self.done.discard(step)
            self.phase_of.pop(step, None)
            self.meta_opened.discard(step)
            for g in (f"item:{step}", f"step:{step}"):
                self.open.discard(g)
                self.seen.discard(g)

    def _writer_vanished(self) -> bool:
        return self.foreign_started > 0 and self.live_bg == 0

    def _is_open(self, name: str) -> bool:
        return self.open_all or name in self.open or (self.open_deletes and name.startswith("delete:"))

    def wait_for(self, pred, what: str, timeout: float = WAIT_S):
        t0 = time.monotonic()
        with self.cv:
            while not pred():
                self.cv.wait(0.25)
                if time.monotonic() - t0 > timeout:
                    raise HarnessError(f"stall waiting for {what}: parked={sorted(self.parked)} done={sorted(self.done)}")

    def open_gate(self, name: str):
        with self.cv:
            self.open.add(name)
            self.cv.notify_all()

    def release_all(self):
        with self.cv:
            self.open_all = True
            self.entry_hold = False
            self.cv.notify_all()

    # -- writer pipeline --------------------------------------------------------
    def position(self, step: int) -> int:
        """Where the writer of `step` is, from what can be observed: 4 finished, 3 parked before
        deleting an expired step, 2 parked before the step rename, 1 parked before the item
        commit, 0 parked at its entry, -1 running between two of these points."""
        if step in self.done:
            return 4
        if any(g.startswith("delete:") and g != f"delete:{step}" for g in self.parked):
            return 3
        if f"step:{step}" in self.parked:
            return 2
        if f"item:{step}" in self.parked:
            return 1
        return 0 if self.entry_hold else -1

    def advance(self, step: int, phase: str) -> str:
        """Advance the in-flight asynchronous save of `step` to (at least) `phase`; main waits
        until the writer is parked there (or further, if the write protocol has no such point,
        or finished).  Returns the phase actually reached."""
        target = PHASES.index(phase)
        while True:
            with self.cv:
                pos = self.position(step)
            if pos >= target and pos != -1:
                break
            with self.cv:
                if pos == 0:
                    self.entry_hold = False
                elif pos == 1:
                    self.open.add(f"item:{step}")
                elif pos == 2:
                    self.open.add(f"step:{step}")
                elif pos == 3:
                    self.open_deletes = True
                self.cv.notify_all()
            before = pos

            def moved():
                p = self.position(step)
                return (p != -1 and p != before) or self._writer_vanished()

            self.wait_for(moved, f"writer of {step} to leave {PHASES[before] if before >= 0 else 'a running stretch'}")
            if self._writer_vanished() and step not in self.done and self.position(step) == -1:
                # a save handed to a thread of mdpax's own making ended without writing anything
                with self.cv:
                    self.done.add(step)
        cur = PHASES[pos]
        self.phase_of[step] = cur
        return cur


SIM = Sim()
_installed = False


def _hook(ev, args):
    sim = SIM
    if not sim.active:
        return
    fs = sim.root + "/fs/"
    try:
        if ev == "os.rename":
            src = str(args[0])
            if not src.startswith(fs):
                return
            m = _pat_item.search(src)
            if m:
                return sim.gate(f"item:{m.group(1)}")
            m = _pat_step.search(src)
            if m:
                return sim.gate(f"step:{m.group(1)}")
        elif ev in ("os.remove", "shutil.rmtree", "os.rmdir"):
            p = str(args[0])
            if p.startswith(fs):
                parts = p[len(fs) :].split("/")[1:]
                for q in parts:
                    if q.isdigit():
                        return sim.gate(f"delete:{q}")
        elif ev == "os.mkdir":
            p = str(args[0])
            if p.startswith(fs):
                m = _pat_step.search(p)
                if m:
                    with sim.cv:
                        sim.started.append(int(m.group(1)))
        elif ev == "open":
            p = args[0]
            if isinstance(p, (str, bytes)) or hasattr(p, "__fspath__"):
                p = str(p)
                m = _pat_meta.search(p) if p.startswith(fs) else None
                if m:
                    with sim.cv:
                        sim.meta_opened.add(int(m.group(1)))
                        sim.cv.notify_all()
                    return
                if p.endswith("/config.yaml") and p.startswith(fs) and args[1] and "w" in str(args[1]):
                    return sim.gate("config_write:" + str(len([x for x in sim.seen if x.startswith("config_write")])), blocking=False)
    except SimCrash:
        raise
    except HarnessError:
        raise


def install():
    """Idempotent: install the audit hook and the Thread.start wrapper."""
    global _installed
    if _installed:
        return
    _installed = True
    sys.addaudithook(_hook)
    _start = threading.Thread.start

    def start(self, *a, **k):
        sim = SIM
        foreign = (
            sim.active
            and sim.in_save
            and sim.block
            and threading.get_ident() == sim.main_ident
            and not _KNOWN_THREADS.match(self.name)
        )
        if sim.active and ((self.name.startswith(BG_PREFIXES) and sim.in_save) or foreign):
            # `foreign`: a thread mdpax itself starts inside save() (no such thread exists on the
            # pinned tree) is part of the writer pipeline: it parks at its entry like Orbax's
            # commit threads, so the plan - not the OS - decides when the save really happens
            run = self.run
            isfin = self.name.startswith("save_finalize") and hasattr(self, "step")
            stp = self.step() if isfin else None

            def wrapped():
                with sim.cv:
                    sim.entry_parked += 1
                    sim.cv.notify_all()
                    while sim.entry_hold and not sim.open_all:
                        sim.cv.wait()
                try:
                    run()
                finally:
                    with sim.cv:
                        sim.live_bg -= 1
                        if isfin:
                            sim.done.add(stp)
                        sim.cv.notify_all()

            self.run = wrapped
            with sim.cv:
                sim.bg_started += 1  # counted in the starting thread: no race with the new thread
                sim.live_bg += 1
                if foreign:
                    sim.foreign_started += 1
        return _start(self, *a, **k)

    threading.Thread.start = start
