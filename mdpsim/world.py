"""The simulated world: executes a plan (lifetimes of a solver with seams, gates, crashes).

`execute(plan, root)` is a pure function of the plan (and of the code under /repo):
it makes no random choice and reads no clock.  It returns a `Run` holding the JSON-able
history plus the raw arrays the oracles need.
"""

from __future__ import annotations

import hashlib
import os
import random
import shutil
import traceback

import numpy as np

from .seams import PHASES, SIM, HarnessError, SimCrash, install

SOLVERS = {}


def _load_solvers():
    if SOLVERS:
        return SOLVERS
    from mdpax.solvers import (
        PeriodicValueIteration,
        PolicyIteration,
        RelativeValueIteration,
        SemiAsyncValueIteration,
        ValueIteration,
    )

    SOLVERS.update(
        VI=ValueIteration, PI=PolicyIteration, RVI=RelativeValueIteration, PER=PeriodicValueIteration, SA=SemiAsyncValueIteration
    )
    return SOLVERS


# --------------------------------------------------------------------------------------
# digests and state capture
# --------------------------------------------------------------------------------------
def dg(x) -> str | None:
    if x is None:
        return None
    a = np.asarray(x)
    h = hashlib.sha256()
    h.update(str(a.dtype).encode())
    h.update(str(a.shape).encode())
    h.update(np.ascontiguousarray(a).tobytes())
    return h.hexdigest()[:16]


EXTRA_FIELDS = {
    "RelativeValueIteration": ("gain",),
    "PeriodicValueIteration": ("value_history", "history_index", "period"),
    "SemiAsyncValueIteration": ("batch_order",),
}
SCALAR_INT = ("iteration", "history_index", "period")


def capture(solver) -> dict:
    """Copy of every runtime field of the solver's saved state.  Arrays keep dtype and shape
    (they take part in the bit-for-bit comparison); counters are compared as integers and the
    gain as a float64 scalar (its Python/NumPy/JAX scalar type is not part of the contract)."""
    out = {}
    for f in ("values", "policy", "iteration") + EXTRA_FIELDS.get(type(solver).__name__, ()):
        if not hasattr(solver, f):
            raise HarnessError(f"seam missing: solver has no attribute {f}")
        v = getattr(solver, f)
        if v is None:
            out[f] = None
        elif f in SCALAR_INT:
            out[f] = np.array(int(v), dtype=np.int64)
        elif f == "gain":
            out[f] = np.array(float(v), dtype=np.float64)
        else:
            out[f] = np.array(v, copy=True)
    return out


def digest_state(st: dict) -> dict:
    return {k: dg(v) for k, v in st.items()}


def same_state(a: dict, b: dict) -> list[str]:
    """Names of fields that differ bit-for-bit (dtype, shape, bytes)."""
    bad = []
    for k in sorted(set(a) | set(b)):
        if k not in a or k not in b:
            bad.append(k + ":missing")
        elif dg(a[k]) != dg(b[k]):
            bad.append(k)
    return bad


# --------------------------------------------------------------------------------------
# problems and solvers from a world description
# --------------------------------------------------------------------------------------
def build_problem(pw: dict):
    kind = pw["kind"]
    if kind == "tab":
        from .tabprob import Tab, TabNoCfg

        spec = {k: v for k, v in pw.items() if k not in ("kind", "cfg")}
        return Tab(**spec) if pw.get("cfg", True) else TabNoCfg(**spec)
    if kind == "forest":
        from mdpax.problems import Forest

        return Forest(**pw["params"])
    if kind == "de_moor":
        from mdpax.problems import DeMoorSingleProductPerishable

        return DeMoorSingleProductPerishable(**pw["params"])
    if kind == "hendrix":
        from mdpax.problems import HendrixTwoProductPerishable

        return HendrixTwoProductPerishable(**pw["params"])
    if kind == "mirjalili":
        from mdpax.problems import MirjaliliPlateletPerishable

        params = dict(pw["params"])
        for k, v in list(params.items()):
            if isinstance(v, list):
                params[k] = tuple(v)
        return MirjaliliPlateletPerishable(**params)
    raise HarnessError(f"unknown problem kind {kind}")


def build_solver(world: dict, ckpt: dict | None, ckdir: str | None, ctor: str = "kwargs"):
    """ctor='kwargs': Solver(problem, **kw)   (what the README shows)
    ctor='config_object': Solver(problem=p, config=cfg) where cfg was derived with
    dataclasses.replace() from the configuration object of an earlier solver of the same class
    built on a *different* problem of the same size - the 'one config object reused across
    runs' usage (a parameter sweep); the earlier (decoy) solver never checkpoints."""
    cls = _load_solvers()[world["solver"]["cls"]]
    kw = dict(world["solver"]["kw"])
    kw.setdefault("verbose", 0)
    if ctor == "config_object":
        import dataclasses as _dc

        pw = world["problem"]
        if pw["kind"] == "tab":
            decoy_pw = dict(pw, seed=int(pw.get("seed", 0)) + 1, cfg=True)
            decoy_cfg = cls.Config(**dict(kw))
            cls(problem=build_problem(decoy_pw), config=decoy_cfg)  # leaves its problem config in decoy_cfg
            extra = {}
            if ckpt is not None and ckpt.get("f", 0) > 0:
                extra = dict(checkpoint_dir=ckdir, checkpoint_frequency=ckpt["f"], max_checkpoints=ckpt["m"], enable_async_checkpointing=ckpt["async"])
            elif ckpt is not None and ckdir is not None:
                extra = dict(checkpoint_dir=ckdir, checkpoint_frequency=0, max_checkpoints=ckpt["m"], enable_async_checkpointing=ckpt["async"])
            cfg = _dc.replace(decoy_cfg, **extra)
            return cls(problem=build_problem(pw), config=cfg)
    if ckpt is not None and ckpt.get("f", 0) > 0:
        kw.update(
            checkpoint_dir=ckdir,
            checkpoint_frequency=ckpt["f"],
            max_checkpoints=ckpt["m"],
            enable_async_checkpointing=ckpt["async"],
        )
    elif ckpt is not None and ckdir is not None:
        kw.update(checkpoint_dir=ckdir, checkpoint_frequency=0, max_checkpoints=ckpt["m"], enable_async_checkpointing=ckpt["async"])
    return cls(build_problem(world["problem"]), **kw)


# --------------------------------------------------------------------------------------
# directory helpers
# --------------------------------------------------------------------------------------
def listing(d: str) -> list[str]:
    """Sorted top-level listing with temp dirs summarised (their inside is not deterministic)."""
    if not os.path.isdir(d):
        return ["<absent>"]
    return sorted(os.listdir(d))


def steps_in(d: str) -> list[int]:
    if not os.path.isdir(d):
        return []
    return sorted(int(x) for x in os.listdir(d) if x.isdigit())


def tree_digest(d: str) -> str:
    h = hashlib.sha256()
    if not os.path.isdir(d):
        return "absent"
    for base, dirs, files in os.walk(d):
        dirs.sort()
        rel = os.path.relpath(base, d)
        h.update(("D:" + rel).encode())
        for f in sorted(files):
            h.update(("F:" + f).encode())
            with open(os.path.join(base, f), "rb") as fh:
                h.update(hashlib.sha256(fh.read()).digest())
    return h.hexdigest()[:16]


def all_files(d: str) -> list[str]:
    out = []
    for base, dirs, files in os.walk(d):
        dirs.sort()
        for f in sorted(files):
            out.append(os.path.join(base, f))
    return out


def prune_empty_dirs(d: str):
    for base, dirs, files in os.walk(d, topdown=False):
        if base != d and not os.listdir(base):
            os.rmdir(base)


def apply_perturbation(fsdir: str, ckdir_rel: str, pert: dict, ctx: dict) -> dict:
    """Mutate the snapshot the way a real kill could have left it.  Returns what was done."""
    kind = pert.get("kind", "none")
    rng = random.Random(pert.get("pseed", 0))
    d = os.path.join(fsdir, ckdir_rel)
    done = {"kind": kind, "applied": 0}
    if kind == "none" or not os.path.isdir(d):
        return done
    tmps = sorted(x for x in os.listdir(d) if x.endswith(".orbax-checkpoint-tmp"))
    if kind == "tmp_subset":
        for t in tmps:
            files = all_files(os.path.join(d, t))
            prune = rng.random() < 0.5
            sub = random.Random(rng.random())
            for f in files:
                if sub.random() < 0.5:
                    os.remove(f)
                    done["applied"] = 1
            if prune:
                prune_empty_dirs(os.path.join(d, t))
    elif kind == "tmp_trunc":
        for t in tmps:
            files = [f for f in all_files(os.path.join(d, t)) if os.path.basename(f).startswith("_") or f.endswith(".json")]
            if files:
                f = files[int(rng.random() * len(files))]
                open(f, "w").close()
                done["applied"] = 1
    elif kind == "partial_delete":
        j = ctx.get("expiring")
        if j is not None and os.path.isdir(os.path.join(d, str(j))):
            # (TensorStore's data-file names and count vary between executions: choices are
            #  made by fraction, and only whether anything was removed enters the history)
            files = all_files(os.path.join(d, str(j)))
            frac, whole = rng.random(), rng.random() < 0.5
            order = sorted(files, key=lambda f: (os.path.basename(os.path.dirname(f)) == "d", f))
            rot = int(rng.random() * len(order)) if order else 0
            order = order[rot:] + order[:rot]
            ncut = len(order) if frac > 0.85 else max(1, int(frac * len(order))) if order else 0
            for f in order[:ncut]:
                os.remove(f)
                done["applied"] = 1
            prune_empty_dirs(os.path.join(d, str(j)))
            if ncut == len(order) and whole:
                shutil.rmtree(os.path.join(d, str(j)), ignore_errors=True)
            done["step"] = j
    elif kind == "config_trunc":
        cfgp = os.path.join(d, "config.yaml")
        mode = pert.get("mode", "empty")
        if mode == "empty" and ctx.get("config_gate"):
            # the kill fell between open('w') (which truncates / creates) and the write
            open(cfgp, "w").close()
            done["applied"] = 1
        # mode == "old": keep whatever the snapshot had (taken before the truncating open)
    return done


# --------------------------------------------------------------------------------------
# the run
# --------------------------------------------------------------------------------------
class Run:
    """Everything one execution of a plan produced."""

    def __init__(self, plan):
        self.plan = plan
        self.hist = {"lifetimes": []}  # JSON-able
        self.rec = {}  # (dir_rel, step) -> list of captured states (one per save call)
        self.committed = {}  # dir_rel -> set of committed steps (model, from gates)
        self.commit_state = {}  # (dir_rel, step) -> captured state of the save that was committed
        self.high_water = {}  # dir_rel -> newest step whose save ever completed (durably)
        self.damaged = {}  # dir_rel -> set of steps whose deletion had begun at a crash
        self.sweeps = {}  # lifetime idx -> list of (iteration, arrays dict)
        self.boots = []  # per lifetime: dict(raw restored state etc.)
        self.finals = []  # per lifetime: captured state at end (or None if crashed)
        self.solvers = []
        self.commit_state_at_boot = {}
        self.commit_state_at_end = {}
        self.end_contents = {}
        self.boot_cfgs = {}
        self.dir_cfg = {}  # dir_rel -> plain config last written to that directory's config.yaml
        self.src_cfg_at_boot = {}
        self.solvers_attrs = {}
        self.perms = {}
        self.fsdir = None
        self.loop = None
        self.stats = {}
        self.error = None

    def stat(self, k, n=1):
        self.stats[k] = self.stats.get(k, 0) + n


class LifetimeCtx:
    def __init__(self, run: Run, li: int, lt: dict, fsdir: str, snapdir: str):
        self.run, self.li, self.lt, self.fsdir, self.snapdir = run, li, lt, fsdir, snapdir
        self.h = {"i": li, "route": lt.get("route", "construct"), "sweeps": [], "saves": [], "calls": [], "events": []}
        self.inflight = None  # step of the asynchronous save in flight
        self.inflight_ticks = 0
        self.inflight_idx = -1
        self.save_count = 0
        self.crash = lt.get("crash")
        self.crashed = None
        self.solver = None
        self.asyn = True
        self.dir_rel = None
        self.snap_taken = False
        self.expiring = None
        self.sweep_raw = []
        self.call_idx = -1
        self.sweeps_in_call = 0
        self.pending_state = {}
        self.config_gate = False
        self.real = False
        self.state_path = None
        self.eff = None

    # ---- writer policy ---------------------------------------------------------
    def _policy_target(self) -> str:
        w = self.lt.get("writer", {"mode": "eager"})
        mode = w.get("mode", "eager")
        if mode == "eager":
            return "W4"
        if mode == "lazy":
            return "W0"
        delays = w.get("delays", [[1, 1, 1, 1]])
        d = delays[self.inflight_idx % len(delays)]
        t, ph = self.inflight_ticks, 0
        for x in d:
            if t >= x:
                t -= x
                ph += 1
            else:
                break
        return PHASES[min(ph, 4)]

    def drive_writer(self):
        if self.inflight is None or not self.asyn:
            return
        if self.inflight in SIM.done:
            self._writer_finished()
            return
        tgt = self._policy_target()
        got = SIM.advance(self.inflight, tgt)
        self._after_advance(got)

    def mark_committed(self, step):
        self.run.committed.setdefault(self.dir_rel, set()).add(step)
        self.run.high_water[self.dir_rel] = max(self.run.high_water.get(self.dir_rel, 0), step)
        if step in self.pending_state:
            self.run.commit_state[(self.dir_rel, step)] = self.pending_state[step]

    def _after_advance(self, got):
        s = self.inflight
        if s is None:
            return
        if got in ("W3", "W4"):
            self.mark_committed(s)
        if got == "W3":
            exp = sorted(int(g.split(":")[1]) for g in SIM.parked if g.startswith("delete:"))
            self.expiring = exp[0] if exp else None
        if got == "W4":
            self._writer_finished()

    def _writer_finished(self):
        s = self.inflight
        self.mark_committed(s)
        # steps whose deletion was performed are gone
        cset = self.run.committed[self.dir_rel]
        on_disk = set(steps_in(os.path.join(self.fsdir, self.dir_rel)))
        for j in list(cset):
            if j not in on_disk:
                cset.discard(j)
        self.inflight = None
        self.expiring = None

    def force_writer(self):
        """The real code would block on the writer here: let it finish."""
        if self.inflight is not None and self.asyn:
            got = SIM.advance(self.inflight, "W4")
            self._after_advance(got)

    # ---- seams -----------------------------------------------------------------
    def at_seam(self, seam: tuple):
        self.h["events"].append(list(seam))
        if seam[0] == "sweep":
            if self.inflight is not None:
                self.inflight_ticks += 1
        self.drive_writer()
        c = self.crash
        if c and not self.crashed and list(c["seam"]) == list(seam):
            self.do_crash(seam)

    def inside_save_seam(self, step: int):
        """Main is inside solver.save(), the manager's save() has returned (asynchronous mode)."""
        started_now = SIM.bg_started > getattr(self, "_e0_inside", 1 << 60)
        if started_now and self.inflight is None:
            # the hand-over happened: from here on the save is in flight
            self.save_count += 1
            self.inflight, self.inflight_ticks, self.inflight_idx = step, 0, self.save_count - 1
            self._counted_inside = True
            try:
                SIM.wait_for(lambda: step in SIM.meta_opened or step in SIM.done, f"metadata file of {step}", timeout=20.0)
            except HarnessError:
                self.h["events"].append(["metadata_file_not_seen", step])
        self.at_seam(("mgr_save_return", step))

    def do_crash(self, seam):
        c = self.crash
        phase = None
        if self.asyn and self.inflight is not None:
            got = SIM.advance(self.inflight, c.get("phase", "W0"))
            self._after_advance(got)
            phase = got
        self.crashed = {"seam": list(seam), "phase": phase, "had_inflight": phase is not None}
        self.run.stat(f"kill@{seam[0]}/{phase or '-'}")
        if not self.snap_taken:
            self.take_snapshot()
        raise SimCrash()

    def real_kill(self):
        """Real-lifetime mode: this is the kill.  Write out the model and die; nothing after
        this instant can have an effect, exactly as with an external SIGKILL."""
        import signal

        run, h = self.run, self.h
        if self.crashed is None:
            self.crashed = {"seam": list(self.crash["seam"]), "phase": None, "had_inflight": False}
            nm = self.crash["seam"][0] + ("/" + str(self.crash["seam"][2]) if self.crash["seam"][0] == "save_inside" else "")
            run.stat(f"kill@{nm}")
        dst = os.path.join(self.fsdir, self.dir_rel)
        h["crash"] = dict(self.crashed)
        h["crash"]["snap_listing"] = listing(dst)
        h["crash"]["committed"] = sorted(run.committed.get(self.dir_rel, set()))
        h["crash"]["_expiring"] = self.expiring
        h["crash"]["_config_gate"] = self.config_gate
        h["crash"]["real_sigkill"] = True
        run.stat("real_sigkill")
        run.sweeps[self.li] = self.sweep_raw
        while len(run.boots) <= self.li:
            run.boots.append({"state": None, "solver": None})
        run.finals.append(None)
        if self.solver is not None and type(self.solver).__name__ == "SemiAsyncValueIteration":
            perms = getattr(self.solver, "_verif_permutations", None) or []
            run.perms[self.li] = [None if p is None else np.array(p) for p in perms]
            h["perm_digests"] = [dg(p) for p in run.perms[self.li]]
        if self.solver is not None and self.crashed["seam"][0] != "construct" and self.eff["f"] > 0:
            run.loop["cur_rel"] = self.dir_rel
            run.loop["ckpt"] = dict(self.eff)
        dump_state(run, self.state_path)
        os.kill(os.getpid(), signal.SIGKILL)

    def take_snapshot(self):
        if self.real:
            self.real_kill()
        if os.path.isdir(self.snapdir):
            shutil.rmtree(self.snapdir)
        shutil.copytree(self.fsdir, self.snapdir, symlinks=True)
        self.snap_taken = True
        self.snap_committed = {k: set(v) for k, v in self.run.committed.items()}
        self.snap_commit_state = dict(self.run.commit_state)
        self.snap_dir_cfg = dict(self.run.dir_cfg)
        self.snap_high_water = dict(self.run.high_water)
        self.snap_expiring = self.expiring

    def on_gate(self, name: str):
        """Runs in the arriving thread, before the gated operation.  Used for kill points that
        main cannot reach: inside a synchronous save() and inside construction (config write)."""
        c = self.crash
        kind, _, arg = name.partition(":")
        import threading as _th

        if kind == "delete" and self.asyn and self._cur_save is not None and SIM.in_save:
            # the solver's own thread deletes a step inside save() (no such code on the pinned
            # tree): the step is gone from the durable state from this instant on
            self.run.committed.setdefault(self.dir_rel, set()).discard(int(arg))
            self.h["events"].append(["step_deleted_by_solver_thread", int(arg)])
        elif kind == "delete" and not self.asyn and self._cur_save is not None:
            # synchronous save: deletion of expired steps begins only after the step rename
            self.mark_committed(self._cur_save)
        if not c or self.snap_taken:
            return
        seam = c["seam"]
        if seam[0] == "save_inside" and not self.asyn:
            want_gate, want_step = seam[2], int(seam[1])
            if kind == want_gate and (kind == "delete" or int(arg) == want_step) and self._cur_save == want_step:
                if kind == "delete":
                    self.expiring = int(arg)
                self.take_snapshot()
                self.h["events"].append(["snapshot_at_gate", kind, int(arg)])
        elif seam[0] == "construct" and kind == "config_write":
            self.config_gate = True
            self.take_snapshot()
            self.h["events"].append(["snapshot_at_gate", kind])

    # ---- instrumentation ---------------------------------------------------------
    def instrument(self, solver):
        self.solver = solver
        for name in ("_iteration_step", "save", "solve"):
            if not callable(getattr(solver, name, None)):
                raise HarnessError(f"seam missing: solver has no {name}")
        o_step = solver._iteration_step
        o_save = solver.save
        ctx = self
        is_pi = type(solver).__name__ == "PolicyIteration"

        def step_w():
            ctx.at_seam(("sweep", int(solver.iteration)))
            r = o_step()
            ctx.sweeps_in_call += 1
            if is_pi:
                arrs = {"values": np.array(solver.values), "policy": np.array(r[0])}
                conv = float(r[1])
            else:
                arrs = {"values": np.array(r[0])}
                conv = float(r[1])
            ctx.sweep_raw.append((int(solver.iteration), arrs, conv))
            ctx.h["sweeps"].append([int(solver.iteration), dg(arrs["values"]), dg(arrs.get("policy"))])
            return r

        def save_w(step):
            if not solver.is_checkpointing_enabled:
                return o_save(step)
            step = int(step)
            ctx.at_seam(("save_enter", step))
            ctx.force_writer()
            st = capture(solver)
            n0 = len(SIM.started)
            e0 = SIM.bg_started
            ctx._e0_inside = e0
            ctx._counted_inside = False
            before = set(steps_in(os.path.join(ctx.fsdir, ctx.dir_rel)))
            with SIM.cv:
                SIM.entry_hold = ctx.asyn
                SIM.open_deletes = False
            ctx._cur_save = step
            ctx.pending_state[step] = st
            SIM.forget(step)
            SIM.cur_step = step
            SIM.in_save = True
            try:
                o_save(step)
            finally:
                SIM.in_save = False
            ctx._cur_save = None
            started = len(SIM.started) > n0 or SIM.bg_started > e0
            if started and ctx.asyn and SIM.foreign_started == 0:
                # Orbax writes the step's _CHECKPOINT_METADATA from a non-blocking helper thread that
                # the simulator does not park; wait for it so that writer phase W0 is one well-defined
                # directory state (temp dir + item temp dir + metadata file)
                try:
                    SIM.wait_for(lambda: step in SIM.meta_opened or step in SIM.done, f"metadata file of {step}", timeout=20.0)
                except HarnessError:
                    ctx.h["events"].append(["metadata_file_not_seen", step])
            dies_inside = bool(ctx.crash and ctx.crash["seam"][0] == "save_inside" and int(ctx.crash["seam"][1]) == step and not ctx.crashed)
            if not dies_inside:  # (a process killed inside save() never sees it return)
                ctx.h["saves"].append({"step": step, "started": started, "state": digest_state(st)})
            ctx.run.rec.setdefault((ctx.dir_rel, step), []).append(st)
            if started:
                ctx.pending_state[step] = st
                ctx.run.stat("saves_started")
                if ctx.asyn and ctx._counted_inside:
                    pass  # already registered as in flight at the seam inside save()
                elif ctx.asyn:
                    ctx.save_count += 1
                    ctx.inflight, ctx.inflight_ticks, ctx.inflight_idx = step, 0, ctx.save_count - 1
                else:
                    # synchronous: committed when save() returned; deletions done
                    ctx.mark_committed(step)
                    cset = ctx.run.committed.setdefault(ctx.dir_rel, set())
                    on_disk = set(steps_in(os.path.join(ctx.fsdir, ctx.dir_rel)))
                    for j in list(cset):
                        if j not in on_disk:
                            cset.discard(j)
            else:
                ctx.run.stat("saves_skipped_by_manager")
            if ctx.crash and ctx.crash["seam"][0] == "save_inside" and int(ctx.crash["seam"][1]) == step and not ctx.crashed:
                if not ctx.snap_taken:
                    # the gate never fired (e.g. no deletion happened): kill right after save()
                    ctx.take_snapshot()
                ctx.crashed = {"seam": list(ctx.crash["seam"]), "phase": None, "had_inflight": False}
                ctx.run.stat(f"kill@save_inside/{ctx.crash['seam'][2]}")
                raise SimCrash()
            ctx.at_seam(("save_exit", step))

        solver._iteration_step = step_w
        solver.save = save_w
        # a point where the real code blocks on the writer is a *forced* point: if mdpax itself
        # waits for pending writes (e.g. at the end of solve()), the plan lets the writer finish
        mgr = getattr(solver, "checkpoint_manager", None)
        if mgr is not None and callable(getattr(mgr, "wait_until_finished", None)):
            o_wait = mgr.wait_until_finished
            main_ident = SIM.main_ident

            def wait_w(*a, **k):
                import threading as _th

                if ctx.crashed and _th.get_ident() == main_ident:
                    # the simulated kill is being unwound through mdpax's own `finally` blocks
                    # (a real kill would not run them): the dead process does not wait for anyone
                    return None
                if _th.get_ident() == main_ident and SIM.active:
                    ctx.force_writer()
                return o_wait(*a, **k)

            try:
                mgr.wait_until_finished = wait_w
            except AttributeError:
                pass
            # a seam inside solver.save(), right after the manager's save() returned: whatever
            # mdpax does after that call (nothing but a log line on the pinned tree) is separated
            # from the hand-over to the writer, so the writer may overtake it and a kill may fall
            # in between
            if callable(getattr(mgr, "save", None)):
                o_msave = mgr.save

                def msave_w(step, *a, **k):
                    r = o_msave(step, *a, **k)
                    import threading as _th

                    if _th.get_ident() == main_ident and SIM.active and SIM.in_save and not ctx.crashed and ctx.asyn:
                        ctx.inside_save_seam(int(step))
                    return r

                try:
                    mgr.save = msave_w
                except AttributeError:
                    pass


def _threshold_of(solver) -> float:
    """Stop threshold the solver uses; falls back to the documented formula if the attribute
    is not there (a renamed internal must not turn into a harness error)."""
    t = getattr(solver, "conv_threshold", None)
    if t is not None:
        return float(t)
    eps, g = float(solver.epsilon), float(solver.gamma)
    if type(solver).__name__ in ("RelativeValueIteration", "PeriodicValueIteration") or g == 1.0:
        return eps
    return eps * (1 - g) / g


def _classify_exc(e: BaseException) -> str:
    return type(e).__name__


def _safe_close(solver):
    mgr = getattr(solver, "checkpoint_manager", None)
    if mgr is not None:
        try:
            mgr.wait_until_finished()
        except Exception:
            pass
        try:
            mgr.close()
        except Exception:
            pass


def execute(plan: dict, root: str, resume: Run | None = None, only: int | None = None, real: bool = False) -> Run:
    """Execute the lifetimes of `plan` under `root` (a fresh scratch directory).

    In-process (default): all lifetimes in this interpreter, a kill = snapshot + unwind.
    Real lifetimes (`real=True`, `only=i`, `resume=` state of the earlier lifetimes): exactly one
    lifetime in this process; at the kill point the state is written out and the process
    SIGKILLs itself - the directory is whatever the real kill leaves (mdpsim.lifetime)."""
    install()
    _load_solvers()
    run = resume if resume is not None else Run(plan)
    world = plan["world"]
    fsdir = os.path.join(root, "fs")
    run.fsdir = fsdir
    snapdir = os.path.join(root, "snap")
    os.makedirs(fsdir, exist_ok=True)
    if run.loop is None:
        run.loop = {"cur_rel": "ck0", "ndirs": 1, "ckpt": dict(world["ckpt"])}
    cur_rel, ndirs, ckpt = run.loop["cur_rel"], run.loop["ndirs"], run.loop["ckpt"]
    for li, lt in enumerate(plan["lifetimes"]):
        if only is not None and li != only:
            continue
        ctx = LifetimeCtx(run, li, lt, fsdir, snapdir)
        ctx.real = real
        ctx.state_path = os.path.join(root, "state.pkl")
        h = ctx.h
        run.hist["lifetimes"].append(h)
        route = lt.get("route", "construct")
        over = dict(lt.get("over", {}))
        eff = dict(ckpt)
        if route == "restore" and run.dir_cfg.get(cur_rel):
            # restore() starts from what config.yaml of the source directory durably holds
            dc = run.dir_cfg[cur_rel]
            eff = {"f": int(dc["checkpoint_frequency"]), "m": int(dc["max_checkpoints"]), "async": bool(dc["enable_async_checkpointing"])}
        if "checkpoint_frequency" in over:
            eff["f"] = over["checkpoint_frequency"]
        if "max_checkpoints" in over:
            eff["m"] = over["max_checkpoints"]
        if "enable_async_checkpointing" in over:
            eff["async"] = over["enable_async_checkpointing"]
        ctx.asyn = bool(eff["async"])
        ctx.eff = dict(eff)
        src_rel = cur_rel
        if lt.get("new_dir"):
            dst_rel = f"ck{ndirs}"
            ndirs += 1
            run.loop["ndirs"] = ndirs
        else:
            dst_rel = cur_rel
        ctx.dir_rel = dst_rel
        src = os.path.join(fsdir, src_rel)
        dst = os.path.join(fsdir, dst_rel)
        h.update(src=src_rel, dst=dst_rel, eff=dict(eff), pre_listing=listing(src), pre_digest=None)
        if lt.get("new_dir"):
            h["pre_digest"] = tree_digest(src)
        cfgp = os.path.join(src, "config.yaml")
        h["model"] = {
            "committed": sorted(run.committed.get(src_rel, set())),
            "damaged": sorted(run.damaged.get(src_rel, set())),
            "high_water": run.high_water.get(src_rel, 0),
            "config": ("absent" if not os.path.exists(cfgp) else ("empty" if os.path.getsize(cfgp) == 0 else "present")),
            "dst_steps": steps_in(dst),
        }
        run.commit_state_at_boot[li] = dict(run.commit_state)
        run.src_cfg_at_boot[li] = run.dir_cfg.get(src_rel)
        step_arg = lt.get("step")
        if step_arg == "explicit":
            Cs = h["model"]["committed"]
            step_arg = Cs[int(lt.get("pick", 0)) % len(Cs)] if Cs else None
        h["step_resolved"] = step_arg
        SIM.reset(root, block=ctx.asyn)
        SIM.on_gate = ctx.on_gate
        ctx._cur_save = None
        solver = None
        boot = {"route": route, "result": "ok", "exc": None}
        h["boot"] = boot
        crashed = False
        try:
            try:
                if route == "construct":
                    solver = build_solver(world, eff, dst, lt.get("ctor", "kwargs"))
                elif route == "restore":
                    cls = _load_solvers()[world["solver"]["cls"]]
                    kwargs = dict(over)
                    if lt.get("new_dir"):
                        kwargs["new_checkpoint_dir"] = dst
                    solver = cls.restore(src, step=step_arg, **kwargs)
                elif route == "load_checkpoint":
                    solver = build_solver(world, eff, dst)
                    solver.load_checkpoint(src, step=step_arg)
                else:
                    raise HarnessError(f"unknown route {route}")
            except (SimCrash, HarnessError):
                raise
            except Exception as e:  # boot failure is an observable outcome
                boot["result"] = "raised"
                boot["exc"] = _classify_exc(e)
                boot["msg"] = str(e)[:200]
                if route == "load_checkpoint":
                    _safe_close(solver)
                solver = None
                if lt.get("fallback"):
                    # what a user does when nothing can be restored: start afresh in the same place
                    solver = build_solver(world, eff, dst)
                    boot["fallback"] = "construct"
            if solver is not None:
                st0 = capture(solver)
                boot["state"] = digest_state(st0)
                boot["iteration"] = int(solver.iteration)
                try:
                    boot["shape"] = [int(x) for x in solver.batch_processor.batch_shape] + [int(solver.n_pad)]
                    boot["gamma"] = float(solver.gamma)
                    boot["values_dtype"] = str(np.asarray(solver.values).dtype)
                except AttributeError as e:
                    raise HarnessError(f"seam missing: {e}")
                run.boots.append({"state": st0, "solver": solver})
                try:
                    import copy as _copy

                    run.boot_cfgs[li] = _cfg_plain(solver.config)
                    if getattr(solver, "has_full_config", False) and eff["f"] > 0:
                        run.dir_cfg[dst_rel] = run.boot_cfgs[li]
                    run.solvers_attrs[li] = {
                        "f": int(solver.checkpoint_frequency),
                        "m": int(solver.max_checkpoints),
                        "async": bool(solver.enable_async_checkpointing),
                    }
                except AttributeError as e:
                    raise HarnessError(f"seam missing: {e}")
                # the simulator follows what the solver really does (a solver that turns out to
                # save synchronously must not have its commit threads parked: main waits for them);
                # whether that is what the plan asked for is judged by the C10 oracle
                actual_async = bool(getattr(solver, "enable_async_checkpointing", ctx.asyn))
                if actual_async != ctx.asyn:
                    h["events"].append(["async_mode_differs_from_plan", actual_async])
                    ctx.asyn = actual_async
                    with SIM.cv:
                        SIM.block = actual_async
                ctx.instrument(solver)
                if ctx.crash and ctx.crash["seam"][0] == "construct":
                    if not ctx.snap_taken:
                        ctx.take_snapshot()
                    ctx.crashed = {"seam": ["construct"], "phase": None, "had_inflight": False}
                    run.stat("kill@construct")
                    raise SimCrash()
            else:
                run.boots.append({"state": None, "solver": None})
            h["boot"] = boot
            if solver is not None:
                for oi, op in enumerate(lt.get("ops", [])):
                    if op["op"] in ("solve", "solve_to"):
                        it0 = int(solver.iteration)
                        if op["op"] == "solve_to":
                            kk = int(op["it"]) - it0
                            if kk <= 0:
                                continue
                        else:
                            kk = int(op["k"])
                        ctx.call_idx += 1
                        ctx.sweeps_in_call = 0
                        call = {"k": kk, "it0": it0}
                        h["calls"].append(call)
                        try:
                            res = solver.solve(kk)
                        except (SimCrash, HarnessError):
                            raise
                        except Exception as e:
                            call["exc"] = _classify_exc(e)
                            call["msg"] = str(e)[:300]
                            call["tb"] = traceback.format_exc()[-1500:]
                            break
                        call["it1"] = int(solver.iteration)
                        call["sweeps"] = ctx.sweeps_in_call
                        call["conv_last"] = ctx.sweep_raw[-1][2] if ctx.sweeps_in_call else None
                        call["thr"] = 0.5 if type(solver).__name__ == "PolicyIteration" else _threshold_of(solver)
                        call["converged"] = bool(ctx.sweeps_in_call and call["conv_last"] < call["thr"])
                        call["ret"] = {
                            "values": dg(res.values),
                            "policy": dg(res.policy),
                            "iteration": int(res.info.iteration),
                        }
                        call["state"] = digest_state(capture(solver))
                        ctx.at_seam(("solve_return", ctx.call_idx))
                    elif op["op"] == "peek_load":
                        # another solver object looks at the directory while a write may be pending
                        # (load_checkpoint builds its own read manager on it); it must not disturb it
                        peek = {"after_call": ctx.call_idx, "inflight": ctx.inflight}
                        if not os.path.isdir(dst) or eff["f"] == 0:
                            continue  # (load_checkpoint would create the directory it is asked to read)
                        try:
                            twin = build_solver(world, None, None)
                            twin.load_checkpoint(dst)
                            peek["loaded"] = int(twin.iteration)
                        except (SimCrash, HarnessError):
                            raise
                        except Exception as e:
                            peek["exc"] = _classify_exc(e)
                        h.setdefault("peeks", []).append(peek)
                    elif op["op"] == "wait":
                        mgr = getattr(solver, "checkpoint_manager", None)
                        try:
                            ctx.force_writer()
                            if mgr is not None:
                                mgr.wait_until_finished()
                        except (SimCrash, HarnessError):
                            raise
                        except Exception as e:  # a failed background write surfaces here
                            h.setdefault("wait_errors", []).append({"after_call": ctx.call_idx, "exc": _classify_exc(e), "msg": str(e)[:200]})
                            if ctx.inflight is not None:
                                ctx.inflight = None
                        h.setdefault("quiesce", []).append(
                            {"after_call": ctx.call_idx, "listing": listing(dst), "src_listing": listing(src) if src != dst else None}
                        )
                    else:
                        raise HarnessError(f"unknown op {op}")
        except SimCrash:
            crashed = True
        finally:
            h["boot"] = boot
        # ---- end of lifetime -------------------------------------------------------
        run.sweeps[li] = ctx.sweep_raw
        if crashed:
            h["crash"] = dict(ctx.crashed)
            h["crash"]["snap_listing"] = listing(os.path.join(snapdir, dst_rel))
            h["crash"]["committed"] = sorted(ctx.snap_committed.get(dst_rel, set()))
            # zombies: nobody observes them; let them finish against the old directory
            SIM.release_all()
            if ctx.inflight is not None and ctx.asyn:
                SIM.wait_for(lambda s=ctx.inflight: s in SIM.done or SIM.live_bg == 0, "zombie writer")
            SIM.wait_for(lambda: SIM.live_bg == 0, "zombie writer threads")
            if solver is not None:
                _safe_close(solver)
            elif run.boots and run.boots[-1].get("solver") is not None:
                _safe_close(run.boots[-1]["solver"])
            SIM.reset(None)
            h["crash"]["_expiring"] = ctx.snap_expiring
            h["crash"]["_config_gate"] = ctx.config_gate
            # durable model: committed steps as of the snapshot
            run.committed = {k: set(v) for k, v in ctx.snap_committed.items()}
            run.commit_state = dict(ctx.snap_commit_state)
            run.dir_cfg = dict(ctx.snap_dir_cfg)
            run.high_water = dict(ctx.snap_high_water)
            post_crash(run, plan, li, snapdir)
            shutil.rmtree(fsdir)
            os.rename(snapdir, fsdir)
            run.finals.append(None)
        else:
            # graceful end: pending writes are awaited (what the repo's own tests do)
            try:
                ctx.force_writer()
            finally:
                SIM.release_all()
            if solver is not None:
                mgr = getattr(solver, "checkpoint_manager", None)
                if mgr is not None:
                    mgr.wait_until_finished()
                if ctx.inflight is not None:
                    ctx._writer_finished()
                run.finals.append(capture(solver))
                _safe_close(solver)
            else:
                run.finals.append(None)
            SIM.reset(None)
            h["end_listing"] = listing(dst)
            if src != dst:
                h["end_src_digest"] = tree_digest(src)
            run.commit_state_at_end[li] = dict(run.commit_state)
            if plan.get("load_contents") and solver is not None and eff["f"] > 0:
                run.end_contents[li] = load_contents(world, fsdir, dst_rel, root)
        h["events_gates"] = None
        run.solvers.append(solver)
        if solver is not None and type(solver).__name__ == "SemiAsyncValueIteration":
            perms = getattr(solver, "_verif_permutations", None)
            if perms is None and ctx.sweep_raw:
                raise HarnessError("seam missing: MDPAX_VERIF hook did not record the semi-async update order")
            run.perms[li] = [None if p is None else np.array(p) for p in (perms or [])]
            h["perm_digests"] = [dg(p) for p in run.perms[li]]
        if solver is not None and eff["f"] > 0 and not (crashed and ctx.crashed and ctx.crashed["seam"][0] == "construct"):
            # (a lifetime with checkpointing off writes nothing: later lifetimes keep using the
            #  directory - and the settings - that were in force before it)
            cur_rel = dst_rel
            ckpt = dict(eff)
        run.loop = {"cur_rel": cur_rel, "ndirs": ndirs, "ckpt": ckpt}
        # a lifetime whose boot failed leaves the directory as it was; later lifetimes may retry
    return run


def post_crash(run: Run, plan: dict, li: int, fs: str):
    """What happens to the durable state after the kill of lifetime li: the perturbation
    (applied to `fs`, the snapshot or - for real lifetimes - the live directory) and the model."""
    h = run.hist["lifetimes"][li]
    c = h["crash"]
    dst_rel = h["dst"]
    pert = plan["lifetimes"][li]["crash"].get("perturb", {"kind": "none"})
    done = apply_perturbation(fs, dst_rel, pert, {"expiring": c.get("_expiring"), "config_gate": c.get("_config_gate")})
    c["perturb"] = done
    run.stat(f"perturb/{done['kind']}" + ("" if done["applied"] else "(noop)"))
    c["post_listing"] = listing(os.path.join(fs, dst_rel))
    if c.get("_expiring") is not None and done["kind"] == "partial_delete" and done["applied"]:
        run.committed.get(dst_rel, set()).discard(c["_expiring"])
        run.damaged.setdefault(dst_rel, set()).add(c["_expiring"])


def dump_state(run: Run, path: str):
    import pickle

    keep_solvers, keep_boots = run.solvers, run.boots
    run.solvers = [None for _ in keep_solvers]
    run.boots = [{"state": b.get("state"), "solver": None} for b in keep_boots]
    try:
        with open(path + ".tmp", "wb") as f:
            pickle.dump(run, f)
            f.flush()
            os.fsync(f.fileno())
        os.replace(path + ".tmp", path)
    finally:
        run.solvers, run.boots = keep_solvers, keep_boots


def load_state(path: str) -> Run:
    import pickle

    with open(path, "rb") as f:
        return pickle.load(f)


def _cfg_plain(cfg):
    import dataclasses

    try:
        from omegaconf import DictConfig, OmegaConf

        from omegaconf import ListConfig

        if isinstance(cfg, (DictConfig, ListConfig)):
            return OmegaConf.to_container(cfg, resolve=True)
    except Exception:
        pass
    if dataclasses.is_dataclass(cfg):
        return {f.name: _cfg_plain(getattr(cfg, f.name)) for f in dataclasses.fields(cfg)}
    if hasattr(cfg, "keys"):
        return {k: _cfg_plain(cfg[k]) for k in cfg.keys()}
    if isinstance(cfg, (list, tuple)):
        return [_cfg_plain(x) for x in cfg]
    if isinstance(cfg, os.PathLike):
        return str(cfg)
    return cfg


def load_contents(world, fsdir, dir_rel, root):
    """Read every retained step of a directory (from a copy) directly through Orbax, without
    any template - what the directory really holds, independent of mdpax's restore code."""
    import orbax.checkpoint as ocp

    out = []
    d = os.path.join(fsdir, dir_rel)
    cp = os.path.join(root, "contents_copy")
    shutil.rmtree(cp, ignore_errors=True)
    shutil.copytree(d, cp)
    mgr = None
    try:
        mgr = ocp.CheckpointManager(cp)
        for s in steps_in(cp):
            try:
                raw = mgr.restore(s, args=ocp.args.StandardRestore())
                st = {}
                for k in ("values", "policy"):
                    st[k] = None if raw.get(k) is None else np.array(raw[k], copy=True)
                for k, v in (raw.get("info") or {}).items():
                    if v is None:
                        st[k] = None
                    elif k in SCALAR_INT:
                        st[k] = np.array(int(v), dtype=np.int64)
                    elif k == "gain":
                        st[k] = np.array(float(v), dtype=np.float64)
                    else:
                        st[k] = np.array(v, copy=True)
                out.append((dir_rel, s, st))
            except Exception as e:  # unreadable step: reported by the oracle
                out.append((dir_rel, s, f"{type(e).__name__}: {str(e)[:200]}"))
    finally:
        if mgr is not None:
            try:
                mgr.close()
            except Exception:
                pass
        shutil.rmtree(cp, ignore_errors=True)
    return out


VOLATILE_KEYS = ("pre_digest", "end_src_digest", "msg", "tb")


def _strip(o):
    if isinstance(o, dict):
        return {k: _strip(v) for k, v in o.items() if k not in VOLATILE_KEYS}
    if isinstance(o, list):
        return [_strip(x) for x in o]
    return o


def history_digest(run: Run) -> str:
    """Digest of the observable history.  Tree digests of directories (Orbax metadata holds
    timestamps), exception messages (absolute scratch paths) and tracebacks never enter it."""
    import json

    return hashlib.sha256(json.dumps(_strip(run.hist), sort_keys=True, default=str).encode()).hexdigest()[:20]
