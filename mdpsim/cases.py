"""One simulated case = (property, run seed) -> result.  Runs inside a worker process."""

from __future__ import annotations

import hashlib
import json
import os
import random
import shutil
import time
import traceback

from . import plan as P
from . import props as Q
from .seams import HarnessError
from .world import execute, history_digest

_counter = 0


def scratch_root() -> str:
    from .boot import scratch_base

    global _counter
    _counter += 1
    d = os.path.join(scratch_base(), f"mdpsim-{os.getpid()}", f"r{_counter}")
    shutil.rmtree(d, ignore_errors=True)
    os.makedirs(d)
    return d


def plan_hash(plan: dict) -> str:
    return hashlib.sha256(json.dumps(plan, sort_keys=True).encode()).hexdigest()[:16]


CRASH_FAMILY = ("C09", "C10", "C11", "C12")


def build_plan(prop: str, seed: int, root: str, force: dict | None = None):
    """Two-step construction.  Returns (plan, ctl)."""
    rng = random.Random(seed)
    if prop in CRASH_FAMILY:
        from . import gen_crash

        return gen_crash.build(prop, rng, seed, root, force)
    if prop == "C08":
        from . import gen_calls

        return gen_calls.build(prop, rng, seed, root)
    if prop in ("C06", "C03"):
        from . import gen_sched

        return gen_sched.build(prop, rng, seed, root)
    raise HarnessError(f"no generator for {prop}")


def evaluate(prop: str, plan: dict, run, ctl):
    if prop in CRASH_FAMILY:
        from . import gen_crash

        return gen_crash.evaluate(prop, plan, run, ctl)
    if prop == "C08":
        from . import gen_calls

        return gen_calls.evaluate(prop, plan, run, ctl)
    if prop in ("C06", "C03"):
        from . import gen_sched

        return gen_sched.evaluate(prop, plan, run, ctl)
    raise HarnessError(f"no oracle for {prop}")


def run_case_forced(prop: str, seed: int, force: dict) -> dict:
    """A case whose world is partly prescribed (grid phases)."""
    return run_case(prop, seed, None, False, force)


def run_case(prop: str, seed: int, explicit_plan: dict | None = None, keep_hist: bool = False, force: dict | None = None) -> dict:
    """Execute one case.  Never raises: harness problems are reported as such."""
    t0 = time.time()
    root = scratch_root()
    res = {"prop": prop, "seed": seed, "verdict": "pass", "violations": [], "stats": {}, "checks": {}, "probes": {}}
    try:
        if explicit_plan is None:
            plan, ctl = build_plan(prop, seed, root, force)
        else:
            plan = explicit_plan
            ctl = Q.run_control(plan["world"], plan["Tmax"], root) if plan.get("Tmax") else None
        res["plan"] = plan
        res["plan_hash"] = plan_hash(plan)
        if ctl is not None and not ctl.ok:
            # the fault-free run of the real code failed: a violation of every property that
            # says "solve() works" for this configuration (reported with the plan as replay)
            res["verdict"] = "violation"
            res["violations"] = [{"class": f"{prop}:control_run_failed:{ctl.exc}", "msg": f"fault-free run raised {ctl.exc}: {ctl.msg}"}]
            res["hist_digest"] = "control-failed"
            return res
        if prop == "C03":
            from . import gen_sched

            runs = gen_sched.execute_c03(plan, root)
            V, res["summary"] = gen_sched.evaluate_c03(plan, runs, ctl)
            run = runs[0]
            for r_ in runs[1:]:
                run.hist["lifetimes"] += r_.hist["lifetimes"]
        else:
            run = execute(plan, root)
            V = evaluate(prop, plan, run, ctl)
        res["violations"] = V.v
        res["checks"] = V.checks
        res["probes"] = V.probes
        res["stats"] = run.stats
        res["hist_digest"] = history_digest(run)
        res["nontrivial"] = sum(V.checks.values()) > 0
        res["volume"] = {
            "lifetimes": len(run.hist["lifetimes"]),
            "solve_calls": sum(len(h["calls"]) for h in run.hist["lifetimes"]),
            "sweeps": sum(len(h["sweeps"]) for h in run.hist["lifetimes"]),
            "saves": sum(len(h["saves"]) for h in run.hist["lifetimes"]),
            "restores": sum(1 for h in run.hist["lifetimes"] if h["route"] != "construct"),
            "crashes": sum(1 for h in run.hist["lifetimes"] if "crash" in h),
        }
        res["joint"] = joint_states(plan, run)
        if keep_hist:
            res["hist"] = run.hist
        if V.v:
            res["verdict"] = "violation"
    except HarnessError as e:
        res["verdict"] = "harness_error"
        res["error"] = f"HarnessError: {e}"
    except BaseException as e:  # noqa: BLE001 - anything else is a harness bug, never a verdict
        res["verdict"] = "harness_error"
        res["error"] = f"{type(e).__name__}: {e}\n{traceback.format_exc()[-2500:]}"
    finally:
        try:
            from .seams import SIM

            SIM.release_all()
            SIM.reset(None)
        except Exception:
            pass
        shutil.rmtree(root, ignore_errors=True)
        _release_memory()
        res["wall_s"] = round(time.time() - t0, 3)
    return res


def _release_memory():
    """Every case builds new solver objects with their own jitted / pmapped functions; JAX keeps
    the compiled executables of all of them alive (about 10 MB per case, 2 GB after 200 cases)
    unless its caches are cleared.  Nothing is reused across cases, so clearing costs nothing."""
    try:
        import gc

        import jax

        jax.clear_caches()
        gc.collect()
    except Exception:
        pass


def joint_states(plan, run) -> list[str]:
    """Reach measure: (solver, async?, seam kind, writer phase, #committed in {0,1,2+},
    deletion pending?, lifetime index in {1,2,3+}, perturbation kind) for every kill."""
    out = []
    cls = plan["world"]["solver"]["cls"]
    for li, h in enumerate(run.hist["lifetimes"]):
        c = h.get("crash")
        if not c:
            continue
        nc = len(c.get("committed", []))
        out.append(
            "|".join(
                str(x)
                for x in (
                    cls,
                    "async" if h["eff"]["async"] else "sync",
                    c["seam"][0] + ("/" + str(c["seam"][2]) if c["seam"][0] == "save_inside" else ""),
                    c.get("phase") or "-",
                    min(nc, 2),
                    "del" if c.get("perturb", {}).get("kind") == "partial_delete" and c["perturb"].get("applied") else "nodel",
                    min(li + 1, 3),
                    c.get("perturb", {}).get("kind", "none"),
                )
            )
        )
    return out


def run_fidelity(prop: str, seed: int) -> dict:
    """Execute one plan twice - in-process and with real lifetimes (fresh interpreters, real
    SIGKILL) - and compare the observable histories; the real run is also judged by the oracles."""
    import json as _json

    from . import lifetime as L

    t0 = time.time()
    root = scratch_root()
    res = {"prop": prop, "seed": seed, "verdict": "pass", "violations": []}
    try:
        plan, ctl = build_plan(prop, seed, root)
        res["plan"] = plan
        if not ctl.ok or not plan["lifetimes"]:
            res["verdict"] = "skipped"
            return res
        a = execute(plan, os.path.join(root, "inproc"))
        b = L.run_real(plan, os.path.join(root, "real"))
        va, vb = L.fidelity_view(a.hist), L.fidelity_view(b.hist)
        ja, jb = _json.dumps(va, sort_keys=True, default=str), _json.dumps(vb, sort_keys=True, default=str)
        res["real_kills"] = getattr(b, "real_kills", 0)
        res["lifetimes"] = len(plan["lifetimes"])
        if ja != jb:
            res["verdict"] = "harness_error"
            diff = []
            for i, (x, y) in enumerate(zip(va, vb)):
                for k in sorted(set(x) | set(y)):
                    if _json.dumps(x.get(k), sort_keys=True, default=str) != _json.dumps(y.get(k), sort_keys=True, default=str):
                        diff.append(f"lifetime {i} {k}: in-process {str(x.get(k))[:300]} | real {str(y.get(k))[:300]}")
            res["error"] = "fidelity mismatch between in-process and real lifetimes: " + " ;; ".join(diff[:4])
            return res
        V = evaluate(prop, plan, b, ctl)
        res["violations"] = V.v
        res["checks"] = V.checks
        if V.v:
            res["verdict"] = "violation"
    except HarnessError as e:
        res["verdict"] = "harness_error"
        res["error"] = f"HarnessError: {e}"
    except BaseException as e:  # noqa: BLE001
        res["verdict"] = "harness_error"
        res["error"] = f"{type(e).__name__}: {e}\n{traceback.format_exc()[-2000:]}"
    finally:
        try:
            from .seams import SIM

            SIM.release_all()
            SIM.reset(None)
        except Exception:
            pass
        shutil.rmtree(root, ignore_errors=True)
        res["wall_s"] = round(time.time() - t0, 2)
    return res


KF2_PROBE_PLAN = {
    # fixed history that exhibits known finding KF-2 (see known_findings.json / DESIGN.md 0.3)
    "prop": "C09",
    "seed": 0,
    "devices": 1,
    "Tmax": 6,
    "world": {
        "problem": {"kind": "forest", "params": {"S": 5, "r1": 4.0, "r2": 2.0, "p": 0.1}},
        "solver": {"cls": "VI", "kw": {"max_batch_size": 4, "gamma": 0.95, "epsilon": 1e-13, "convergence_test": "span"}},
        "ckpt": {"f": 2, "m": 2, "async": True},
    },
    "lifetimes": [
        {"route": "construct", "ops": [{"op": "solve_to", "it": 2}, {"op": "wait"}], "writer": {"mode": "eager"}},
        {"route": "restore", "ops": [{"op": "solve_to", "it": 6}, {"op": "wait"}], "writer": {"mode": "eager"}},
    ],
}


def run_readme_order(prop: str, seed: int, fixed_plan: dict | None = None) -> dict:
    """The property in really fresh processes with the README construction order (problem built
    before the solver switches 64-bit mode on - a process-global flag the in-process engine
    cannot vary): the uninterrupted run and the plan are both executed with real lifetimes
    (kills = real SIGKILL) in that boot order and judged by the property's own oracles."""
    from . import lifetime as L

    t0 = time.time()
    root = scratch_root()
    res = {"prop": prop, "seed": seed, "verdict": "pass", "violations": []}
    try:
        if fixed_plan is not None:
            import copy as _copy

            plan = _copy.deepcopy(fixed_plan)
        else:
            plan, ctl = build_plan(prop, seed, root)
            if not ctl.ok or not plan["lifetimes"] or Q.is_shuffled(plan["world"]):
                res["verdict"] = "skipped"
                return res
        for lt in plan["lifetimes"]:
            if prop != "C11":
                lt.pop("crash", None)
            lt.pop("ctor", None)  # (the decoy of the config-object route would switch 64-bit mode on first)
        plan["readme_order"] = True
        res["plan"] = plan
        cplan = dict(P.control_plan(plan["world"], plan["Tmax"]), devices=plan.get("devices", 1))
        c = L.run_real(cplan, os.path.join(root, "c"), x64_first=False)
        rctl = Q.Ctl(c)
        if not rctl.ok:
            res["verdict"] = "violation"
            res["violations"] = [{"class": f"{prop}:control_run_failed:{rctl.exc}", "msg": f"README order, fresh process: fault-free run raised {rctl.exc}: {rctl.msg}"}]
            return res
        stops = [o["it"] for lt in plan["lifetimes"][:-1] for o in lt["ops"] if o["op"] == "solve_to" and not lt.get("crash")]
        if any(k >= rctl.end_it for k in stops):
            # the interruption points were planned against the control of the 64-bit-first world;
            # here the uninterrupted run stops earlier: nothing to resume (not comparable)
            res["verdict"] = "skipped"
            return res
        b = L.run_real(plan, os.path.join(root, "r"), x64_first=False)
        res["lifetimes"] = len(plan["lifetimes"]) + 1
        res["real_kills"] = getattr(b, "real_kills", 0)
        res["dtype"] = c.hist["lifetimes"][0]["boot"].get("values_dtype")
        if any(h["boot"].get("fallback") for h in b.hist["lifetimes"]):
            # nothing could be restored and the lifetime started afresh *in the same process*, i.e.
            # after a first construction had already switched 64-bit mode on: that second problem
            # is built in another precision than the uninterrupted run's (a C20 matter) - the
            # boot-order premise of this phase no longer holds for this plan
            res["verdict"] = "skipped"
            return res
        # do the two runs compute in the same precision at all?
        cdt = {it: str(arrs["values"].dtype) for it, arrs, _ in c.sweeps[0]}
        for li, h in enumerate(b.hist["lifetimes"]):
            for it, arrs, _ in b.sweeps.get(li, []):
                if it in cdt and cdt[it] != str(arrs["values"].dtype):
                    res["violations"] = [
                        {
                            "class": f"{prop}:readme_order_precision_mismatch",
                            "msg": f"fresh processes, problem built before the solver switches 64-bit mode on: the uninterrupted run computes sweep {it} in {cdt[it]}, the run of lifetime {li} in {arrs['values'].dtype}",
                            "control_dtype": cdt[it],
                            "resumed_dtype": str(arrs["values"].dtype),
                        }
                    ]
                    res["verdict"] = "violation"
                    return res
        V = evaluate(prop, plan, b, rctl)
        for v in V.v:
            v["class"] = v["class"].replace(f"{prop}:", f"{prop}:readme_order_", 1)
            v["msg"] = "README boot order, fresh processes: " + v["msg"]
        res["violations"] = V.v
        res["checks"] = V.checks
        if V.v:
            res["verdict"] = "violation"
    except HarnessError as e:
        res["verdict"] = "harness_error"
        res["error"] = f"HarnessError: {e}"
    except BaseException as e:  # noqa: BLE001
        res["verdict"] = "harness_error"
        res["error"] = f"{type(e).__name__}: {e}\n{traceback.format_exc()[-2000:]}"
    finally:
        shutil.rmtree(root, ignore_errors=True)
        res["wall_s"] = round(time.time() - t0, 2)
    return res
