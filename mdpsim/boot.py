"""Process-level setup for a simulation worker.  Must run before jax is imported."""

from __future__ import annotations

import os
import sys
import tempfile

VERIF_DIR = os.path.dirname(os.path.dirname(os.path.abspath(__file__)))
REPO_SRC = os.environ.get("MDPSIM_REPO_SRC", "/repo/src")


def _shm() -> str:
    return "/dev/shm" if os.path.isdir("/dev/shm") and os.access("/dev/shm", os.W_OK) else tempfile.gettempdir()


def scratch_base() -> str:
    """Where run directories live: one tree per check invocation (removed by it at the end)."""
    return os.environ.get("MDPSIM_SCRATCH_BASE") or _shm()


def cache_dir() -> str:
    # persistent XLA compilation cache, shared by the workers of one check invocation (a plan's
    # control run and lifetimes compile identical HLO) and removed with its scratch tree
    return os.path.join(scratch_base(), "xla-cache")


def child_env(devices: int = 1, x64_first: bool = True) -> dict:
    """Environment for a worker / lifetime process."""
    env = dict(os.environ)
    env["JAX_PLATFORMS"] = "cpu"
    env["MDPAX_VERIF"] = "1"
    env["PYTHONHASHSEED"] = env.get("MDPSIM_HASHSEED", "0")
    env["XLA_FLAGS"] = f"--xla_force_host_platform_device_count={int(devices)}"
    env["MDPSIM_DEVICES"] = str(int(devices))
    env["MDPSIM_X64_FIRST"] = "1" if x64_first else "0"
    env["TF_CPP_MIN_LOG_LEVEL"] = "3"
    pp = [VERIF_DIR, REPO_SRC] + [p for p in env.get("PYTHONPATH", "").split(os.pathsep) if p]
    env["PYTHONPATH"] = os.pathsep.join(dict.fromkeys(pp))
    return env


_done = False


def init_worker(devices: int | None = None, x64_first: bool | None = None):
    """Configure this process (env first, then jax).  Idempotent."""
    global _done
    if _done:
        return
    _done = True
    if devices is None:
        devices = int(os.environ.get("MDPSIM_DEVICES", "1"))
    if x64_first is None:
        x64_first = os.environ.get("MDPSIM_X64_FIRST", "1") == "1"
    os.environ["JAX_PLATFORMS"] = "cpu"
    os.environ["MDPAX_VERIF"] = "1"
    extra = [f for f in os.environ.get("XLA_FLAGS", "").split() if not f.startswith("--xla_force_host_platform_device_count")]
    os.environ["XLA_FLAGS"] = " ".join([f"--xla_force_host_platform_device_count={int(devices)}"] + extra)
    os.environ.setdefault("TF_CPP_MIN_LOG_LEVEL", "3")
    for p in (REPO_SRC, VERIF_DIR):
        if p not in sys.path:
            sys.path.insert(0, p)
    import jax

    if x64_first:
        jax.config.update("jax_enable_x64", True)
    try:
        jax.config.update("jax_compilation_cache_dir", cache_dir())
        jax.config.update("jax_persistent_cache_min_compile_time_secs", 0)
        jax.config.update("jax_persistent_cache_min_entry_size_bytes", -1)
    except Exception:
        pass
    try:
        from absl import logging as absl_logging

        absl_logging.set_verbosity(absl_logging.FATAL)
    except Exception:
        pass
    import logging

    logging.getLogger("jax").setLevel(logging.ERROR)
    import warnings

    warnings.filterwarnings("ignore")
    n = len(jax.devices())
    if n != int(devices):
        raise RuntimeError(f"HARNESS: asked for {devices} devices, jax reports {n}")
    import mdpax  # noqa: F401

    src = os.path.realpath(os.path.dirname(mdpax.__file__))
    if not src.startswith(os.path.realpath(REPO_SRC)):
        raise RuntimeError(f"HARNESS: mdpax imported from {src}, expected under {REPO_SRC}")
