"""CLI: python -m mdpsim.check --property Cxx --tier quick|thorough   |   --replay <file>

exit 0  the property held on everything explored (known findings are printed, not failed)
exit 1  a violation was found:  VIOLATION property=<id> replay=<path>
exit 2  HARNESS-ERROR (seam missing, stall, worker died, determinism self-check failed)
"""

from __future__ import annotations

import argparse
import copy
import json
import os
import subprocess
import sys
import time

from . import boot
from . import plan as P

VERIF = boot.VERIF_DIR
LEVEL = {"C03": "exploration", "C06": "exploration", "C08": "exploration", "C09": "exploration", "C10": "exploration", "C11": "fault_enumeration", "C12": "exploration"}
# runs per tier (fixed counts: a run of a check is a pure function of VERIF_SEED)
RUNS = {
    "quick": {"C03": 160, "C06": 260, "C08": 420, "C09": 420, "C10": 420, "C11": 420, "C12": 420},
    "thorough": {"C03": 1600, "C06": 3000, "C08": 5000, "C09": 5000, "C10": 5000, "C11": 5000, "C12": 5000},
}
WALL_CAP = {"quick": 600, "thorough": 3000}


def load_known():
    p = os.path.join(VERIF, "known_findings.json")
    if not os.path.exists(p):
        return []
    return json.load(open(p)).get("findings", [])


def match_known(prop: str, viol: dict, known: list) -> dict | None:
    for k in known:
        if k.get("kind") != "known" or prop not in k.get("properties", []):
            continue
        m = k.get("match", {})
        cls = viol.get("class", "")
        if "class_suffix" in m and not cls.endswith(m["class_suffix"]):
            continue
        if "class_contains" in m and m["class_contains"] not in cls:
            continue
        if "fields" in m and sorted(viol.get("fields", [])) != sorted(m["fields"]):
            continue
        if "restored_none" in m and sorted(viol.get("restored_none", [])) != sorted(m["restored_none"]):
            continue
        if "solver_in" in m and viol.get("solver") not in m["solver_in"]:
            continue
        if "msg_contains" in m and m["msg_contains"] not in viol.get("msg", ""):
            continue
        return k
    return None


def split_known(prop, violations, known):
    real, kn = [], []
    for v in violations:
        k = match_known(prop, v, known)
        (kn if k else real).append((v, k))
    return [v for v, _ in real], kn


# ---------------------------------------------------------------------------------------
# shrinking (delta debugging over the plan; every candidate is executed in a worker)
# ---------------------------------------------------------------------------------------
def candidates(plan: dict):
    lts = plan.get("lifetimes", [])
    n = len(lts)
    # drop trailing lifetimes, then single lifetimes (never the first)
    for k in range(n - 1, 0, -1):
        c = copy.deepcopy(plan)
        c["lifetimes"] = lts[:k]
        yield f"keep first {k} lifetimes", c
    for i in range(1, n):
        c = copy.deepcopy(plan)
        del c["lifetimes"][i]
        yield f"drop lifetime {i}", c
    for i in range(n):
        lt = lts[i]
        if lt.get("crash") and lt["crash"].get("perturb", {}).get("kind", "none") != "none":
            c = copy.deepcopy(plan)
            c["lifetimes"][i]["crash"]["perturb"] = {"kind": "none"}
            yield f"lifetime {i}: no perturbation", c
        if lt.get("writer", {}).get("mode", "eager") != "eager":
            c = copy.deepcopy(plan)
            c["lifetimes"][i]["writer"] = {"mode": "eager"}
            yield f"lifetime {i}: eager writer", c
        if lt.get("over"):
            c = copy.deepcopy(plan)
            c["lifetimes"][i]["over"] = {}
            yield f"lifetime {i}: no overrides", c
        if lt.get("new_dir"):
            c = copy.deepcopy(plan)
            c["lifetimes"][i]["new_dir"] = False
            yield f"lifetime {i}: same directory", c
        if lt.get("crash") and lt["crash"].get("phase") not in (None, "W0"):
            c = copy.deepcopy(plan)
            c["lifetimes"][i]["crash"]["phase"] = "W0"
            yield f"lifetime {i}: writer at W0", c
        ops = lt.get("ops", [])
        for j in range(len(ops) - 1, -1, -1):
            if len(ops) > 1:
                c = copy.deepcopy(plan)
                del c["lifetimes"][i]["ops"][j]
                yield f"lifetime {i}: drop op {j}", c
    w = plan["world"]
    if w.get("ckpt", {}).get("m", 1) > 1:
        c = copy.deepcopy(plan)
        c["world"]["ckpt"]["m"] = 1
        yield "m=1", c
    if w["problem"].get("kind") == "tab":
        for k, v in (("sdim", 1), ("adim", 1), ("iv", 0), ("dup", 0), ("offset", 0)):
            if w["problem"].get(k, v) != v:
                c = copy.deepcopy(plan)
                c["world"]["problem"][k] = v
                yield f"problem {k}={v}", c
    for k, arr in plan.get("knobs", {}).items():
        if isinstance(arr, list) and len(arr) > 2:
            for j in range(len(arr)):
                c = copy.deepcopy(plan)
                del c["knobs"][k][j]
                yield f"drop knob {k}[{j}]", c


def shrink(pools, prop: str, res: dict, classes: set, budget_s: float = 150.0, max_exec: int = 60):
    from .runner import run_cases  # noqa: F401

    best = res["plan"]
    trace = []
    t0 = time.time()
    n_exec = 0
    improved = True
    while improved and time.time() - t0 < budget_s and n_exec < max_exec:
        improved = False
        for what, cand in candidates(best):
            if time.time() - t0 > budget_s or n_exec >= max_exec:
                break
            n_exec += 1
            try:
                r = pools.submit_case(cand.get("devices", 1), prop, res["seed"], cand).result(timeout=300)
            except BaseException:  # noqa: BLE001
                continue
            got = {v["class"] for v in r.get("violations", [])}
            if r.get("verdict") == "violation" and got & classes:
                best = cand
                trace.append(what)
                improved = True
                break
    return best, trace, n_exec


def write_replay(prop, seed, plan, viol, hist_digest, trace, tag="") -> str:
    d = os.path.join(os.environ.get("MDPSIM_OUT", VERIF), "replays")
    os.makedirs(d, exist_ok=True)
    path = os.path.join(d, f"{prop}_{seed}{tag}.json")
    json.dump(
        {"property": prop, "seed": seed, "plan": plan, "expected_violation": sorted({v["class"] for v in viol}), "messages": [v["msg"] for v in viol][:5], "history_sha256": hist_digest, "minimisation": trace},
        open(path, "w"),
        indent=1,
        sort_keys=True,
    )
    return path


# ---------------------------------------------------------------------------------------
def cmd_replay(path: str) -> int:
    rp = json.load(open(path))
    prop, plan, seed = rp["property"], rp["plan"], rp["seed"]
    dev = int(plan.get("devices", 1))
    code = (
        "import json,sys\n"
        "from mdpsim import boot\n"
        f"boot.init_worker({dev})\n"
        "from mdpsim import cases\n"
        f"rp=json.load(open({path!r}))\n"
        "r=cases.run_case(rp['property'], rp['seed'], rp['plan'])\n"
        "print('REPLAY-RESULT '+json.dumps({k:r.get(k) for k in ('verdict','violations','hist_digest','error')}, default=str))\n"
    )
    p = subprocess.run([sys.executable, "-c", code], env=boot.child_env(dev), cwd=VERIF, capture_output=True, text=True, timeout=900)
    line = [l for l in p.stdout.splitlines() if l.startswith("REPLAY-RESULT ")]
    if not line:
        print("HARNESS-ERROR replay produced no result\n" + p.stdout[-2000:] + p.stderr[-2000:])
        return 2
    r = json.loads(line[-1][len("REPLAY-RESULT ") :])
    if r["verdict"] == "harness_error":
        print("HARNESS-ERROR", r.get("error"))
        return 2
    got = sorted({v["class"] for v in r.get("violations") or []})
    known = load_known()
    real, kn = split_known(prop, r.get("violations") or [], known)
    for v in r.get("violations") or []:
        print("  ", v["class"], "-", v["msg"])
    same_hist = r.get("hist_digest") == rp.get("history_sha256")
    print(f"replay: violation classes {got}; expected {rp.get('expected_violation')}; history digest {'identical' if same_hist else 'DIFFERENT'}")
    if set(got) & set(rp.get("expected_violation", [])):
        if not real:
            for v, k in kn:
                print(f"KNOWN-FINDING: property={prop} {k['id']} {k['what']}")
            return 0
        print(f"VIOLATION property={prop} replay={path}")
        return 1
    print("NOT REPRODUCED")
    return 0


def main(argv=None) -> int:
    ap = argparse.ArgumentParser()
    ap.add_argument("--property")
    ap.add_argument("--tier", default=os.environ.get("VERIF_TIER", "quick"))
    ap.add_argument("--runs", type=int)
    ap.add_argument("--replay")
    ap.add_argument("--no-shrink", action="store_true")
    a = ap.parse_args(argv)
    if a.replay:
        return cmd_replay(a.replay)
    prop, tier = a.property, a.tier
    if prop not in LEVEL:
        print(f"HARNESS-ERROR unknown or unclaimed property {prop}")
        return 2
    seed = int(os.environ.get("VERIF_SEED", "20261004"))
    from . import engine

    return engine.run_check(prop, tier, seed, a.runs, shrink_enabled=not a.no_shrink)


def _guarded_main() -> int:
    """An exception of the harness itself must never look like a verdict: exit 2, not 1."""
    if os.environ.get("MDPSIM_DEBUG_DUMP_S"):
        import faulthandler

        faulthandler.dump_traceback_later(float(os.environ["MDPSIM_DEBUG_DUMP_S"]), repeat=True)
    try:
        return main()
    except SystemExit:
        raise
    except BaseException as e:  # noqa: BLE001
        import traceback

        print(f"HARNESS-ERROR uncaught {type(e).__name__}: {e}\n{traceback.format_exc()[-3000:]}")
        return 2


if __name__ == "__main__":
    sys.exit(_guarded_main())
