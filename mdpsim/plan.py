"""Seeded plan construction.  The PRNG is consulted only here - never during execution.

Plans are built in two steps (DESIGN.md section 4): the world is drawn first and its
fault-free control run executed; interruption and kill points are then drawn relative to
what the control actually did, so that every fault lands inside live work.
"""

from __future__ import annotations

import hashlib
import math
import random

PHASES = ["W0", "W1", "W2", "W3", "W4"]
DET_SOLVERS = ["VI", "PI", "RVI", "PER", "SA"]


def run_seed(prop: str, verif_seed: int, index: int) -> int:
    h = hashlib.sha256(f"{prop}:{verif_seed}:{index}".encode()).digest()
    return int.from_bytes(h[:6], "big")


def devices_for(prop: str, seed: int) -> int:
    """Device count of a run - a pure function of (property, run seed) so the parent can route
    the run to a worker process started with that many emulated host devices."""
    r = random.Random(seed ^ 0x5EED).random()
    if prop in ("C03", "C06"):
        return [1, 2, 3, 4, 8][int(r * 5)]
    if r < 0.80:
        return 1
    return 2 if r < 0.92 else 3


# --------------------------------------------------------------------------------------
# worlds
# --------------------------------------------------------------------------------------
def draw_problem(rng: random.Random, need_anchor: bool, cfg: bool = True, big: bool = False) -> dict:
    n = rng.randint(3, 14) if not big else rng.choice([17, 23, 31, 40, 64, 65, 97, 128])
    return {
        "kind": "tab",
        "cfg": cfg,
        "seed": rng.randint(0, 10**6),
        "n": n,
        "na": rng.randint(2, 4),
        "ne": rng.randint(2, 3),
        "offset": rng.choice([0, 0, 2, 5]),
        "sdim": rng.choice([1, 1, 2]),
        "adim": rng.choice([1, 1, 2]),
        "iv": rng.choice([0, 1]),
        "anchor": 1 if need_anchor else rng.choice([0, 1]),
        "dup": rng.choice([0, 0, 1]),
    }


def loguniform(rng, lo, hi):
    return math.exp(rng.uniform(math.log(lo), math.log(hi)))


def draw_solver(rng: random.Random, cls: str, n: int, never_converge: bool = False, shuffle=None) -> dict:
    kw = {"max_batch_size": rng.randint(1, n + 3)}
    if cls == "RVI":
        kw["gamma"] = 1.0
        kw["epsilon"] = 1e-13 if never_converge else float(f"{loguniform(rng, 1e-7, 1e-1):.3g}")
    elif cls == "PER":
        kw["gamma"] = rng.choice([1.0, 0.95, 0.9, 0.8, 0.6])
        kw["period"] = rng.randint(2, 4) if kw["gamma"] == 1.0 else rng.randint(1, 4)
        kw["epsilon"] = 1e-13 if never_converge else float(f"{loguniform(rng, 1e-6, 1e-1):.3g}")
        kw["clear_value_history_on_convergence"] = rng.choice([True, False])
    else:
        kw["gamma"] = rng.choice([0.5, 0.7, 0.8, 0.9, 0.95])
        kw["epsilon"] = 1e-13 if never_converge else float(f"{loguniform(rng, 1e-5, 2.0):.3g}")
        kw["convergence_test"] = rng.choice(["span", "max_diff"])
        if cls == "PI":
            kw["max_eval_iter"] = rng.choice([1, 2, 3, 5, 20, 100])
            kw["reset_values_for_each_policy_eval"] = rng.choice([True, False])
        if cls == "SA":
            kw["shuffle_states"] = rng.choice([True, False]) if shuffle is None else shuffle
            kw["random_seed"] = rng.randint(0, 10**6)
    return {"cls": cls, "kw": kw}


def draw_ckpt(rng: random.Random) -> dict:
    return {"f": rng.randint(1, 5), "m": rng.randint(1, 3), "async": rng.random() < 0.75}


def draw_world(rng: random.Random, solvers=DET_SOLVERS, cfg: bool = True, never_converge_p: float = 0.4, shuffle=False) -> dict:
    cls = rng.choice(solvers)
    never = rng.random() < never_converge_p
    sol_gamma1 = cls == "RVI"
    prob = draw_problem(rng, need_anchor=True if cls in ("RVI", "PER") else False, cfg=cfg)
    sol = draw_solver(rng, cls, prob["n"], never_converge=never, shuffle=shuffle)
    del sol_gamma1
    return {"problem": prob, "solver": sol, "ckpt": draw_ckpt(rng)}


def control_plan(world: dict, T: int) -> dict:
    w = dict(world)
    w["ckpt"] = {"f": 0, "m": 1, "async": True}
    return {"prop": "control", "world": w, "lifetimes": [{"route": "construct", "ops": [{"op": "solve", "k": T}]}]}


def draw_writer(rng: random.Random, crashing: bool = False) -> dict:
    r = rng.random()
    if r < (0.1 if crashing else 0.3):
        return {"mode": "eager"}
    if r < (0.6 if crashing else 0.55):
        return {"mode": "lazy"}
    return {"mode": "staged", "delays": [[rng.randint(0, 2) for _ in range(4)] for _ in range(3)]}


# --------------------------------------------------------------------------------------
# kill points
# --------------------------------------------------------------------------------------
def save_steps(f: int, lo: int, hi: int) -> list[int]:
    """Labels of periodic saves attempted for iterations in (lo, hi]."""
    return [k for k in range(lo + 1, hi + 1) if k % f == 0]


def draw_crash(rng: random.Random, eff: dict, lo: int, hi: int, end_it: int, last_call_limit: bool) -> dict | None:
    """A kill point for a lifetime that will sweep iterations lo+1 .. hi (hi = where the control
    stops).  Biased towards the neighbourhood of saves and of retention deletion."""
    if hi <= lo:
        return None
    f, asyn = eff["f"], eff["async"]
    saves = save_steps(f, lo, hi - 1)  # periodic saves that happen strictly before the end
    r = rng.random()
    phase = rng.choice(PHASES)
    if r < 0.10:
        seam = ["construct"]
    elif r < 0.60 and saves:
        s = rng.choice(saves)
        kind = rng.random()
        if not asyn and kind < 0.5:
            seam = ["save_inside", s, rng.choice(["item", "step", "delete"])]
        elif kind < 0.2:
            seam = ["save_enter", s]
        elif kind < 0.35 and asyn:
            seam = ["mgr_save_return", s]  # inside save(), right after the hand-over to the writer
        elif kind < 0.6:
            seam = ["save_exit", s]
        else:
            seam = ["sweep", min(hi, s + rng.randint(1, 2))]
    elif r < 0.8 and saves and eff["m"] <= len(saves):
        # retention deletion: it starts when the (m+1)-th checkpoint commits
        s = rng.choice(saves[eff["m"] - 1 :]) if len(saves) >= eff["m"] else rng.choice(saves)
        phase = "W3"
        seam = ["save_inside", s, "delete"] if not asyn else rng.choice([["save_exit", s], ["sweep", min(hi, s + 1)]])
    else:
        seam = ["sweep", rng.randint(lo + 1, hi)]
    if seam[0] == "construct":
        pert = rng.choice([{"kind": "none"}, {"kind": "config_trunc", "mode": "empty"}, {"kind": "config_trunc", "mode": "old"}])
    elif phase in ("W0", "W1", "W2") or seam[0] == "save_inside" and seam[2] in ("item", "step"):
        pert = {"kind": rng.choice(["none", "tmp_subset", "tmp_subset", "tmp_trunc"])}
    elif phase == "W3" or seam[0] == "save_inside":
        pert = {"kind": rng.choice(["none", "partial_delete", "partial_delete"])}
    else:
        pert = {"kind": rng.choice(["none", "tmp_subset"])}
    pert["pseed"] = rng.randint(0, 10**6)
    return {"seam": seam, "phase": phase, "perturb": pert}


def draw_shipped_problem(rng: random.Random, kind: str | None = None) -> dict:
    """One of the four shipped problems at a small seeded parameterisation (Hydra-configured;
    Mirjalili carries tuple-valued parameters that have to survive the YAML round trip)."""
    k = rng.choice(["forest", "de_moor", "hendrix", "mirjalili"])
    if kind is not None:
        k = kind
    r2 = lambda lo, hi: round(rng.uniform(lo, hi), 2)  # noqa: E731
    if k == "forest":
        return {"kind": k, "params": {"S": rng.randint(3, 9), "r1": r2(2, 6), "r2": r2(1, 3), "p": r2(0.02, 0.4)}}
    if k == "de_moor":
        m = rng.choice([2, 2, 3])
        return {
            "kind": k,
            "params": {
                "max_demand": rng.randint(3, 6),
                "demand_gamma_mean": r2(1.0, 3.0),
                "demand_gamma_cov": r2(0.3, 0.8),
                "max_useful_life": m,
                "lead_time": rng.choice([1, 2]) if m == 2 else 1,
                "max_order_quantity": rng.randint(2, 3),
                "variable_order_cost": r2(1, 4),
                "shortage_cost": r2(3, 8),
                "wastage_cost": r2(3, 9),
                "holding_cost": r2(0.5, 2),
                "issue_policy": rng.choice(["fifo", "lifo"]),
            },
        }
    if k == "hendrix":
        return {
            "kind": k,
            "params": {
                "max_useful_life": 2,
                "demand_poisson_mean_a": r2(0.8, 2.0),
                "demand_poisson_mean_b": r2(0.8, 2.0),
                "substitution_probability": r2(0.0, 1.0),
                "max_order_quantity_a": 2,
                "max_order_quantity_b": 2,
            },
        }
    m = rng.choice([2, 3])
    return {
        "kind": k,
        "params": {
            "max_demand": rng.randint(3, 4),
            "weekday_demand_negbin_n": [r2(2.0, 11.0) for _ in range(7)],
            "weekday_demand_negbin_delta": [r2(3.0, 7.0) for _ in range(7)],
            "max_useful_life": m,
            "useful_life_at_arrival_distribution_c_0": [r2(0.2, 1.2) for _ in range(m - 1)],
            "useful_life_at_arrival_distribution_c_1": [r2(-0.1, 0.2) for _ in range(m - 1)],
            "max_order_quantity": rng.randint(2, 3),
            "fixed_order_cost": r2(5, 12),
        },
    }
