"""Per-property plan construction (second step: relative to the control run) and oracles."""

from __future__ import annotations

import dataclasses
import json
import os
import random
import shutil

import numpy as np

from . import plan as P
from . import refmodel as R
from .seams import HarnessError
from .world import Run, capture, dg, execute, same_state, steps_in


# --------------------------------------------------------------------------------------
# control run
# --------------------------------------------------------------------------------------
class Ctl:
    def __init__(self, run: Run):
        h = run.hist["lifetimes"][0]
        self.run = run
        self.ok = bool(h["calls"]) and "exc" not in h["calls"][0]
        self.exc = h["calls"][0].get("exc") if h["calls"] else h["boot"].get("exc")
        self.msg = (h["calls"][0].get("msg") if h["calls"] else h["boot"].get("msg")) or ""
        if not self.ok:
            return
        c = h["calls"][0]
        self.end_it = c["it1"]
        self.converged = c["converged"]
        self.sweeps = {it: (v, p) for it, v, p in h["sweeps"]}
        self.raw = {it: arrs for it, arrs, _ in run.sweeps[0]}
        self.conv = {it: cv for it, _, cv in run.sweeps[0]}
        self.final = run.finals[0]
        self.boot = run.boots[0]["state"]


def run_control(world: dict, T: int, root: str) -> Ctl:
    d = os.path.join(root, "ctl")
    os.makedirs(d, exist_ok=True)
    run = execute(P.control_plan(world, T), d)
    shutil.rmtree(d, ignore_errors=True)
    return Ctl(run)


def is_shuffled(world) -> bool:
    return world["solver"]["cls"] == "SA" and bool(world["solver"]["kw"].get("shuffle_states"))


# --------------------------------------------------------------------------------------
# plan construction, second step
# --------------------------------------------------------------------------------------
ROUTES = ["restore", "restore", "restore_new", "load_checkpoint", "load_checkpoint_new"]


def _route(rng, world, allow_new=True):
    if not world["problem"].get("cfg", True):
        r = rng.choice(["load_checkpoint", "load_checkpoint_new"] if allow_new else ["load_checkpoint"])
    else:
        r = rng.choice(ROUTES if allow_new else ["restore", "restore", "load_checkpoint"])
    lt = {"route": r.replace("_new", ""), "new_dir": r.endswith("_new")}
    return lt


def lifetimes_crash_family(rng: random.Random, prop: str, world: dict, ctl: Ctl, Tmax: int) -> list[dict]:
    """Chains of lifetimes ending either cleanly at an interruption iteration or in a kill."""
    end = ctl.end_it
    eff = dict(world["ckpt"])
    lts = []
    if prop == "C11":
        n_crash, n_clean = rng.choice([1, 1, 1, 2, 2, 3]), rng.choice([0, 0, 1])
    elif prop == "C09":
        n_crash, n_clean = rng.choice([0, 0, 0, 0, 1]), rng.choice([1, 1, 2, 3])
    elif prop == "C10":
        n_crash, n_clean = 0, rng.choice([1, 1, 2])
    else:  # C12
        n_crash, n_clean = rng.choice([0, 0, 0, 1]), rng.choice([0, 1, 2, 3])
    n_int = min(n_crash + n_clean, max(0, end - 1))
    kinds = ["crash"] * n_crash + ["clean"] * n_clean
    rng.shuffle(kinds)
    kinds = kinds[:n_int]
    # interruption iterations strictly before the control's end, increasing
    pop = list(range(1, end))
    if prop == "C11" and end - 1 - eff["f"] >= n_int and rng.random() < 0.75:
        pop = list(range(eff["f"] + 1, end))  # most kills after the first save was attempted
    pts = sorted(rng.sample(pop, n_int)) if n_int else []
    if prop == "C10" and pts and end > 11 and rng.random() < 0.5:
        # a restore while the retained steps straddle a change in the number of digits (9 | 10)
        pts = sorted(set(pts[:-1]) | {rng.choice([k for k in (10, 11, 12) if k < end])})
        kinds = kinds[: len(pts)]
    lo = 0
    prev = 0
    ctor = "config_object" if prop in ("C10", "C12") and world["problem"]["kind"] == "tab" and rng.random() < 0.15 else "kwargs"
    for i, (kind, p) in enumerate(zip(kinds, pts)):
        lt = {"route": "construct", "ctor": ctor} if i == 0 else _route(rng, world, allow_new=(prop != "C11" or rng.random() < 0.3))
        if i > 0:
            lt["fallback"] = True
            lt["over"] = _draw_over(rng, prop, eff, allow_f0=(kind == "clean"))
            if lt["over"].get("checkpoint_frequency") == 0:
                kind = "clean"  # nothing is written in this lifetime; later ones restore the old directory
            else:
                eff = _apply_over(eff, lt["over"])
        lt["writer"] = P.draw_writer(rng, crashing=(kind == "crash"))
        if kind == "clean":
            lt["ops"] = _split_ops(rng, lo, p, prop) + [{"op": "wait"}]
            lo = p
        else:
            if rng.random() < 0.2:
                # killed right after solve() returned at its limit, final save still in flight
                # (what a script that exits without waiting amounts to, observation O-2)
                lt["ops"] = [{"op": "solve_to", "it": p}]
                pert = {"kind": rng.choice(["none", "tmp_subset", "tmp_trunc", "partial_delete"]), "pseed": rng.randint(0, 10**6)}
                lt["crash"] = {"seam": ["solve_return", 0], "phase": rng.choice(P.PHASES), "perturb": pert}
            else:
                lt["ops"] = [{"op": "solve_to", "it": Tmax}]
                # the kill lands in (prev, p]; the next lifetime restarts at a committed step <= p
                lt["crash"] = P.draw_crash(rng, eff, max(prev, p - 2 * eff["f"] - 1), p, end, False)
        prev = p
        lts.append(lt)
    lt = {"route": "construct", "ctor": ctor} if not lts else _route(rng, world, allow_new=True)
    if lts:
        lt["fallback"] = True
        lt["over"] = _draw_over(rng, prop, eff, allow_f0=True)
        if prop in ("C10",) and rng.random() < 0.5:
            lt["step"] = "explicit"  # resolved against the model at execution time
    lt["writer"] = P.draw_writer(rng)
    lt["ops"] = [{"op": "solve_to", "it": Tmax}, {"op": "wait"}]
    if prop == "C12" and rng.random() < 0.4:
        # someone else opens the directory (load_checkpoint on another solver object) while the
        # final write of this call may still be pending
        lt["writer"] = {"mode": "lazy"}
        lt["ops"] = [{"op": "solve_to", "it": Tmax}, {"op": "peek_load"}, {"op": "wait"}]
    per_cleared = world["solver"]["cls"] == "PER" and world["solver"]["kw"].get("clear_value_history_on_convergence", True) and ctl.converged
    if prop == "C12" and rng.random() < 0.5 and not per_cleared:
        # (a converged periodic solver that cleared its history - a documented option - cannot be
        #  continued, observation O-3 in DESIGN.md)
        # one more call after convergence / limit: solve() composes with itself
        lt["ops"] += [{"op": "solve", "k": rng.randint(1, 3)}, {"op": "wait"}]
    lts.append(lt)
    return lts


def _split_ops(rng, lo, hi, prop):
    """One or several solve calls taking the solver from iteration lo to hi."""
    if hi - lo >= 2 and rng.random() < (0.6 if prop == "C12" else 0.2):
        mid = rng.randint(lo + 1, hi - 1)
        ops = [{"op": "solve_to", "it": mid}]
        if rng.random() < 0.5:
            ops.append({"op": "wait"})
        return ops + [{"op": "solve_to", "it": hi}]
    return [{"op": "solve_to", "it": hi}]


def _draw_over(rng, prop, eff, allow_f0=False):
    over = {}
    p = {"C10": 0.6, "C12": 0.6, "C09": 0.3, "C11": 0.15}.get(prop, 0.2)
    if allow_f0 and prop in ("C10", "C12") and rng.random() < 0.12:
        return {"checkpoint_frequency": 0}  # checkpointing switched off on restore
    if rng.random() < p:
        if rng.random() < 0.5:
            over["checkpoint_frequency"] = rng.randint(1, 5)
        if rng.random() < 0.5:
            over["max_checkpoints"] = rng.randint(1, 3)
        if rng.random() < 0.4:
            over["enable_async_checkpointing"] = not eff["async"]
    return over


def _apply_over(eff, over):
    e = dict(eff)
    if "checkpoint_frequency" in over:
        e["f"] = over["checkpoint_frequency"]
    if "max_checkpoints" in over:
        e["m"] = over["max_checkpoints"]
    if "enable_async_checkpointing" in over:
        e["async"] = over["enable_async_checkpointing"]
    return e


# --------------------------------------------------------------------------------------
# oracles
# --------------------------------------------------------------------------------------
class Verdicts:
    def __init__(self, prop):
        self.prop = prop
        self.v = []
        self.checks = {}
        self.probes = {}

    def ok(self, name):
        self.checks[name] = self.checks.get(name, 0) + 1

    def bad(self, cls, msg, **kw):
        self.v.append({"class": cls, "msg": msg, **kw})

    def probe(self, name, n=1):
        self.probes[name] = self.probes.get(name, 0) + n


def cfg_to_plain(cfg):
    """Solver config (dataclass or DictConfig) -> plain dict for comparison."""
    try:
        from omegaconf import DictConfig, OmegaConf

        if isinstance(cfg, DictConfig):
            return OmegaConf.to_container(cfg, resolve=True)
    except Exception:
        pass
    if dataclasses.is_dataclass(cfg):
        d = {}
        for f in dataclasses.fields(cfg):
            v = getattr(cfg, f.name)
            d[f.name] = cfg_to_plain(v) if dataclasses.is_dataclass(v) or hasattr(v, "keys") else v
        return d
    if hasattr(cfg, "keys"):
        return {k: cfg_to_plain(cfg[k]) if hasattr(cfg[k], "keys") else cfg[k] for k in cfg.keys()}
    return cfg


def _norm_cfg(d):
    def n(v):
        if isinstance(v, dict):
            return {k: n(x) for k, x in v.items()}
        if isinstance(v, (list, tuple)):
            return [n(x) for x in v]
        if isinstance(v, os.PathLike):
            return str(v)
        return v

    return n(d)


def check_boot(V: Verdicts, prop, plan, run: Run, li: int, h: dict):
    """C10 / C11: what restore()/load_checkpoint() returned against the durable model."""
    lt = plan["lifetimes"][li]
    route = lt.get("route", "construct")
    if route == "construct":
        return
    boot, model = h["boot"], h["model"]
    if h.get("crash", {}).get("real_sigkill") and h["crash"]["seam"][0] == "construct":
        return  # really killed while booting: there is no boot outcome to judge
    C = model["committed"]
    if prop == "C11" and model.get("high_water", 0) > (max(C) if C else 0):
        V.bad(f"{prop}:completed_checkpoint_lost", f"lifetime {li}: the save of step {model['high_water']} had completed before the kill, but the newest restorable step is {max(C) if C else None}; listing={h['pre_listing']}")
        return
    step = h.get("step_resolved")
    src = h["src"]
    got = run.boots[li]["state"] if not boot.get("fallback") else None
    raised = boot["result"] == "raised"
    want_step = step if step is not None else (max(C) if C else None)
    has_cfg = plan["world"]["problem"].get("cfg", True) or plan["world"]["problem"]["kind"] != "tab"
    if route == "restore" and model["config"] == "absent" and has_cfg and C and prop == "C11":
        # solver and problem are reconstructible and a save had completed before the kill, yet the
        # directory cannot be restored because its configuration file is not there
        V.bad(f"{prop}:completed_checkpoint_without_config", f"lifetime {li}: steps {C} are completed but config.yaml is missing: restore() gave {boot['result']}/{boot['exc']}; listing={h['pre_listing']}")
        return
    if route == "restore" and model["config"] == "absent":
        if not raised or boot["exc"] != "FileNotFoundError":
            V.bad(f"{prop}:no_config_not_FileNotFoundError", f"lifetime {li}: restore() of a directory without config.yaml gave {boot['result']}/{boot['exc']}")
        else:
            V.ok("restore_no_config_raises")
        return
    if route == "restore" and model["config"] == "empty":
        # O-1: config.yaml truncated by a kill during construction - restore() cannot work; it
        # must not hand back a solver with a wrong state
        V.probe("restore_with_truncated_config")
        if not raised:
            _cmp_restored(V, prop, run, li, src, want_step, got, "restore(truncated config)")
        return
    if want_step is None or (step is not None and step not in C):
        if step is not None and step in model["damaged"]:
            V.probe("explicit_restore_of_half_deleted_step")
            if not raised:
                _cmp_restored(V, prop, run, li, src, step, got, "restore(half-deleted step)", key_any=True)
            return
        if not raised:
            V.bad(f"{prop}:restore_returned_without_checkpoint", f"lifetime {li}: {route} returned a solver (iteration {boot.get('iteration')}) although no completed checkpoint exists; listing={h['pre_listing']}")
        elif model["config"] == "present" and boot["exc"] != "ValueError" and step is None:
            V.bad(f"{prop}:no_checkpoint_not_ValueError", f"lifetime {li}: {route} with no completed checkpoint raised {boot['exc']}: {boot.get('msg')}")
        else:
            V.ok("restore_without_checkpoint_raises")
        return
    if raised:
        V.bad(f"{prop}:restore_failed_with_completed_checkpoint", f"lifetime {li}: {route}(step={step}) raised {boot['exc']}: {boot.get('msg')} although steps {C} are completed; listing={h['pre_listing']}")
        return
    _cmp_restored(V, prop, run, li, src, want_step, got, route)


def _cmp_restored(V, prop, run, li, src, want_step, got, what, key_any=False):
    if got is None:
        return
    it = int(got["iteration"])
    if want_step is not None and it != want_step:
        V.bad(f"{prop}:restored_wrong_step", f"lifetime {li}: {what} returned iteration {it}, expected step {want_step}")
        return
    exp = run.commit_state_at_boot[li].get((src, it))
    if exp is None:
        cands = run.rec.get((src, it), [])
        if not cands:
            V.bad(f"{prop}:restored_unknown_label", f"lifetime {li}: {what} returned iteration {it} for which no save was ever made")
            return
        exp = cands[-1]
    bad = same_state(exp, got)
    if bad:
        V.bad(
            f"{prop}:restored_state_mismatch",
            f"lifetime {li}: {what} at step {it}: fields {bad} differ from the state recorded when save({it}) was called",
            fields=bad,
            restored_none=[k for k in bad if got.get(k) is None and exp.get(k) is not None],
            solver=run.plan["world"]["solver"]["cls"],
        )
    else:
        V.ok("restored_state_bit_equal")


def check_trajectory(V: Verdicts, prop, plan, run: Run, ctl: Ctl):
    """C09 / C11: every lifetime follows the uninterrupted run of the real code, bit for bit."""
    shuffled = is_shuffled(plan["world"])
    for li, h in enumerate(run.hist["lifetimes"]):
        its = [s[0] for s in h["sweeps"]]
        if not its:
            continue
        b = h["boot"]
        start = b.get("iteration", 0) if not b.get("fallback") else 0
        if its != list(range(start + 1, start + 1 + len(its))):
            V.bad(f"{prop}:iterations_not_consecutive", f"lifetime {li}: booted at {start}, swept iterations {its}")
            continue
        if shuffled and (li > 0 and not b.get("fallback")):
            continue
        if shuffled and b.get("fallback"):
            pass
        for it, vd, pd in h["sweeps"]:
            if it in ctl.sweeps:
                if ctl.sweeps[it] != (vd, pd):
                    V.bad(f"{prop}:trajectory_diverged", f"lifetime {li}: state after sweep {it} differs from the uninterrupted run (first divergence)")
                    break
                V.ok("sweep_equal_to_control")


def check_final(V: Verdicts, prop, plan, run: Run, ctl: Ctl, Tmax: int):
    h = run.hist["lifetimes"][-1]
    fin = run.finals[-1]
    if fin is None or "crash" in h:
        return
    if is_shuffled(plan["world"]) and len(run.hist["lifetimes"]) > 1:
        return
    calls = [c for c in h["calls"]]
    if not calls or any("exc" in c for c in calls):
        return
    # only comparable when the run was driven to the same budget as the control
    ops = plan["lifetimes"][-1]["ops"]
    if not any(o["op"] == "solve_to" and o["it"] == Tmax for o in ops) or any(o["op"] == "solve" for o in ops):
        return
    b = h["boot"]
    if b["result"] == "ok" and not b.get("fallback") and b.get("iteration", 0) >= ctl.end_it:
        # the kill came after the last sweep: the restored state already IS the final result
        # (calling solve() again on it performs a further sweep, as it would in the original
        # process) - compare what was restored, not what a further call makes of it
        st = run.boots[len(run.hist["lifetimes"]) - 1]["state"]
        bad = [k for k in same_state(ctl.final, st) if not k.startswith("policy")] if st is not None else []
        if ctl.final.get("value_history", 0) is None:
            bad = [k for k in bad if k != "value_history"]  # the control cleared its history on convergence
        if b.get("iteration") == ctl.end_it and bad:
            V.bad(f"{prop}:final_state_differs", f"state restored after the last sweep: fields {bad} differ from the uninterrupted run at iteration {ctl.end_it}")
        elif b.get("iteration") == ctl.end_it:
            V.ok("final_state_equal_to_control")
        return
    if int(fin["iteration"]) != ctl.end_it:
        V.bad(f"{prop}:final_iteration_differs", f"resumed run ended at iteration {int(fin['iteration'])}, uninterrupted run at {ctl.end_it}")
        return
    bad = same_state(ctl.final, fin)
    if bad:
        V.bad(f"{prop}:final_state_differs", f"fields {bad} differ from the uninterrupted run at iteration {ctl.end_it}")
    else:
        V.ok("final_state_equal_to_control")


def check_calls(V: Verdicts, prop, run: Run):
    for li, h in enumerate(run.hist["lifetimes"]):
        for ci, c in enumerate(h["calls"]):
            if "exc" in c:
                V.bad(f"{prop}:solve_raised", f"lifetime {li} call {ci}: solve({c['k']}) raised {c['exc']}: {c.get('msg')}", tb=c.get("tb"))
                continue
            if "it1" not in c:
                continue  # killed inside the call
            if c["sweeps"] > c["k"]:
                V.bad(f"{prop}:limit_exceeded", f"lifetime {li}: solve({c['k']}) performed {c['sweeps']} sweeps")
            if c["it1"] - c["it0"] != c["sweeps"] or c["ret"]["iteration"] != c["it1"]:
                V.bad(f"{prop}:iteration_accounting", f"lifetime {li}: solve({c['k']}) from {c['it0']}: {c['sweeps']} sweeps but iteration {c['it1']} / reported {c['ret']['iteration']}")
            else:
                V.ok("call_accounting")


def check_resume_point(V: Verdicts, prop, plan, run: Run):
    """C09 (c): after a clean stop at iteration k the rebuilt solver resumes at exactly k."""
    hs = run.hist["lifetimes"]
    for li in range(1, len(hs)):
        prev, h = hs[li - 1], hs[li]
        if "crash" in prev or not prev["calls"] or "it1" not in prev["calls"][-1]:
            continue
        if plan["lifetimes"][li].get("route", "construct") == "construct" or h.get("step_resolved") is not None:
            continue
        if prev["eff"]["f"] == 0:
            continue
        k = prev["calls"][-1]["it1"]
        b = h["boot"]
        if h.get("crash", {}).get("real_sigkill") and h["crash"]["seam"][0] == "construct":
            continue  # really killed while booting: no boot outcome
        if b["result"] == "ok" and "iteration" not in b:
            continue
        if b["result"] != "ok" or b.get("fallback"):
            if plan["lifetimes"][li]["route"] == "restore" and h["model"]["config"] != "present":
                V.ok("restore_needs_config")  # config-less problem: restore() cannot work by design
                continue
            V.bad(f"{prop}:resume_failed", f"lifetime {li}: {plan['lifetimes'][li]['route']} after a clean stop at iteration {k} raised {b.get('exc')}: {b.get('msg')}")
        elif b["iteration"] != k:
            V.bad(f"{prop}:resume_point", f"lifetime {li}: resumed at iteration {b['iteration']} after a clean stop at iteration {k}")
        else:
            V.ok("resumed_at_interruption_point")


def check_shuffled_bound(V: Verdicts, prop, plan, run: Run):
    """C09 (d): with state shuffling a resumed run still converges to a solution within the
    error bound of the stopping rule (max_diff): values within epsilon of V*, policy value
    within 2*gamma*epsilon/(1-gamma)."""
    h = run.hist["lifetimes"][-1]
    fin = run.finals[-1]
    if fin is None or not h["calls"] or "it1" not in h["calls"][-1]:
        return
    c = h["calls"][-1]
    kw = plan["world"]["solver"]["kw"]
    if not c["converged"]:
        V.bad(f"{prop}:shuffled_resume_did_not_converge", f"resumed shuffled run did not converge within {plan['Tmax']} iterations (stopped at {c['it1']})")
        return
    mdp = R.MDP({k: v for k, v in plan["world"]["problem"].items() if k not in ("kind", "cfg")})
    g, eps = float(h["boot"].get("gamma", kw["gamma"])), kw["epsilon"]
    vs = mdp.vstar(g)
    err = float(np.max(np.abs(fin["values"] - vs)))
    if err > eps * (1 + 1e-6) + 1e-9:
        V.bad(f"{prop}:shuffled_resume_outside_bound", f"resumed shuffled run converged {err:.3g} away from the optimal values (epsilon {eps})")
        return
    pi = mdp.action_index(fin["policy"])
    if (pi < 0).any():
        V.bad(f"{prop}:policy_not_in_action_space", "returned policy holds vectors outside the action space")
        return
    gap = float(np.max(vs - mdp.exact_policy_value(pi, g)))
    if gap > 2 * g * eps / (1 - g) * (1 + 1e-6) + 1e-9:
        V.bad(f"{prop}:shuffled_resume_policy_bound", f"policy of the resumed shuffled run is {gap:.3g} below optimal, bound {2 * g * eps / (1 - g):.3g}")
    else:
        V.ok("shuffled_resume_within_bound")


def check_directory(V: Verdicts, prop, plan, run: Run, content: bool = True):
    """C12: cadence / retention / content / config presence at quiescent points."""
    has_cfg = plan["world"]["problem"].get("cfg", True) or plan["world"]["problem"]["kind"] != "tab"
    crashed_before = False
    for li, h in enumerate(run.hist["lifetimes"]):
        if "crash" in h:
            crashed_before = True
        if "crash" in h or h["boot"]["result"] == "raised" and not h["boot"].get("fallback"):
            continue
        eff = h["eff"]
        if eff["f"] == 0:
            lst = h.get("end_listing")
            if h["src"] == h["dst"] and li > 0:
                # checkpointing switched off on restore into the same directory: nothing may change
                steps = sorted(int(x) for x in (lst or []) if x.isdigit())
                if steps != list(h["model"]["dst_steps"]):
                    V.bad(f"{prop}:written_with_f0", f"lifetime {li}: checkpoint_frequency=0 but the directory changed from {h['model']['dst_steps']} to {steps}")
                else:
                    V.ok("f0_nothing_written")
            elif lst != ["<absent>"]:
                V.bad(f"{prop}:directory_created_with_f0", f"lifetime {li}: checkpoint_frequency=0 but directory has {lst}")
            else:
                V.ok("f0_nothing_written")
            continue
        cur = list(h["model"]["dst_steps"])
        qs = {q["after_call"]: q for q in h.get("quiesce", [])}
        last_ci = len(h["calls"]) - 1
        for ci, c in enumerate(h["calls"]):
            if "it1" not in c:
                break
            cur = R.expected_steps(cur, c["it0"], c["it1"], eff["f"], eff["m"], c["converged"])
            lst = None
            if ci in qs:
                lst = qs[ci]["listing"]
            elif ci == last_ci and "end_listing" in h:
                lst = h["end_listing"]
            if lst is None:
                continue
            steps = sorted(int(x) for x in lst if x.isdigit())
            other = sorted(x for x in lst if not x.isdigit())
            if steps != cur:
                V.bad(f"{prop}:directory_steps", f"lifetime {li} after call {ci} (iterations {c['it0']}->{c['it1']}, f={eff['f']}, m={eff['m']}): directory holds {steps}, expected {cur}")
                cur = steps
            else:
                V.ok("directory_steps")
            if c["it1"] not in steps:
                V.bad(f"{prop}:last_iteration_not_saved", f"lifetime {li} call {ci}: last iteration {c['it1']} not among {steps}")
            if not crashed_before and any(x.endswith(".orbax-checkpoint-tmp") for x in other):
                # (after a kill a stale temp dir may legitimately stay: it is not a checkpoint)
                V.bad(f"{prop}:temp_dir_left", f"lifetime {li} after call {ci}: {other}")
            if ("config.yaml" in other) != bool(has_cfg):
                V.bad(f"{prop}:config_presence", f"lifetime {li}: config.yaml present={('config.yaml' in other)} but reconstructible={bool(has_cfg)}")
        # content of every retained step (end of lifetime only)
        for (d, s, st) in run.end_contents.get(li, []) if content else []:
            exp = run.commit_state_at_end[li].get((d, s))
            if exp is None:
                cands = run.rec.get((d, s), [])
                exp = cands[-1] if cands else None
            if exp is None:
                V.probe("retained_step_from_unknown_save")
                continue
            if isinstance(st, str):
                V.bad(f"{prop}:retained_step_unreadable", f"lifetime {li}: step {s} could not be loaded: {st}")
                continue
            bad = same_state(exp, st)
            if bad:
                V.bad(f"{prop}:retained_step_content", f"lifetime {li}: retained step {s}: fields {bad} differ from the solver state at iteration {s}")
            else:
                V.ok("retained_step_content")


def check_overrides(V: Verdicts, prop, plan, run: Run):
    """C10: config equality modulo overrides; overrides visible; original directory untouched."""
    for li, h in enumerate(run.hist["lifetimes"]):
        lt = plan["lifetimes"][li]
        if h["boot"]["result"] != "ok" or h["boot"].get("fallback") or lt.get("route", "construct") == "construct":
            continue
        if h["src"] != h["dst"] and "end_src_digest" in h:
            if h["end_src_digest"] != h["pre_digest"]:
                V.bad(f"{prop}:original_directory_altered", f"lifetime {li}: {lt['route']} into a new directory changed the original directory {h['src']}")
            else:
                V.ok("original_directory_untouched")
        s = run.solvers_attrs.get(li, {})
        eff = h["eff"]
        if s and (s["f"], s["m"], s["async"]) != (eff["f"], eff["m"], eff["async"]):
            V.bad(f"{prop}:override_not_effective", f"lifetime {li}: solver has (f,m,async)={(s['f'], s['m'], s['async'])}, expected {(eff['f'], eff['m'], eff['async'])}")
        if lt.get("route") != "restore":
            continue
        cfg = run.boot_cfgs.get(li)
        base = run.src_cfg_at_boot.get(li)
        if cfg is None or base is None:
            continue
        exp = json.loads(json.dumps(_norm_cfg(base), default=str))
        got = json.loads(json.dumps(_norm_cfg(cfg), default=str))
        exp.update(lt.get("over", {}))
        want_dir = os.path.join(run.fsdir, h["dst"])
        if str(got.get("checkpoint_dir")) != want_dir:
            V.bad(f"{prop}:checkpoint_dir_override", f"lifetime {li}: restored config.checkpoint_dir={got.get('checkpoint_dir')} expected {want_dir}")
        exp["checkpoint_dir"] = got.get("checkpoint_dir")
        diff = sorted(k for k in set(exp) | set(got) if exp.get(k) != got.get(k))
        if diff:
            V.bad(f"{prop}:config_differs", f"lifetime {li}: restored configuration differs in {diff}: " + "; ".join(f"{k}: saved {exp.get(k)!r} restored {got.get(k)!r}" for k in diff[:4]), fields=diff)
        else:
            V.ok("config_equal")
