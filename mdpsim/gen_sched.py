"""C06 (update schedules of the semi-asynchronous solver) and C03 (knob replay over
batch size x device count).  Fault-free worlds; the schedule / partition is the searched space."""

from __future__ import annotations

import copy
import os
import random

import numpy as np

from . import plan as P
from . import props as Q
from . import refmodel as R
from .gen_calls import RefDriver, atol_for, refine
from .seams import HarnessError
from .world import dg, execute


def n_devices() -> int:
    return int(os.environ.get("MDPSIM_DEVICES", "1"))


# --------------------------------------------------------------------------------------
# C06
# --------------------------------------------------------------------------------------
def build_c06(rng: random.Random, seed: int, root: str):
    big = rng.random() < 0.15
    prob = P.draw_problem(rng, need_anchor=False, big=big)
    n = prob["n"]
    shuffle = rng.random() < 0.65
    converge = (not big) and rng.random() < 0.3
    kw = {
        "max_batch_size": rng.randint(1, n + 3) if not big else rng.choice([1, 2, 3, 5, 7, 16, 64, n, n + 1]),
        "gamma": rng.choice([0.5, 0.7, 0.8, 0.9]) if converge else rng.choice([0.5, 0.8, 0.9, 0.95, 0.99]),
        "epsilon": float(f"{P.loguniform(rng, 1e-7, 1e-3):.3g}") if converge else 1e-13,
        "convergence_test": "max_diff" if converge else rng.choice(["span", "max_diff"]),
        "shuffle_states": shuffle,
        # (seeds on the boundaries of the accepted range now and then: 0 is falsy, 2**31-1 the largest)
        "random_seed": rng.choice([0, 0, 1, 2**31 - 1]) if rng.random() < 0.12 else rng.randint(0, 2**31 - 1),
    }
    world = {"problem": prob, "solver": {"cls": "SA", "kw": kw}, "ckpt": {"f": 0, "m": 1, "async": True}}
    ks = [rng.randint(1, 4) for _ in range(rng.choice([1, 2, 3]))]
    if converge:
        ks = ks + [600]
    lt = {"route": "construct", "ops": [{"op": "solve", "k": k} for k in ks]}
    plan = {"prop": "C06", "seed": seed, "devices": n_devices(), "world": world, "Tmax": None, "lifetimes": [lt, copy.deepcopy(lt)], "converge": converge}
    return plan, None


def evaluate_c06(plan: dict, run, ctl):
    prop = "C06"
    V = Q.Verdicts(prop)
    world = plan["world"]
    hs = run.hist["lifetimes"]
    for li, h in enumerate(hs):
        if h["boot"]["result"] != "ok":
            V.bad(f"{prop}:construction_failed", f"{h['boot']['exc']}: {h['boot'].get('msg')}")
            return V
        for c in h["calls"]:
            if "exc" in c:
                V.bad(f"{prop}:solve_raised:{c['exc']}", f"solve({c['k']}) raised {c['exc']}: {c.get('msg')}", tb=c.get("tb"))
                return V
    h0 = hs[0]
    drv = RefDriver(world, h0["boot"])
    n = drv.mdp.n
    nsw = len(run.sweeps[0])
    refine(V, prop, drv, run, 0, run.boots[0]["state"], check_stop=False)
    # the returned vector is in natural order with one entry per state
    for it, arrs, _ in run.sweeps[0]:
        if arrs["values"].shape != (n,):
            V.bad(f"{prop}:shape", f"sweep {it}: value vector has shape {arrs['values'].shape}, expected ({n},)")
            break
    perms = run.perms.get(0, [])
    if world["solver"]["kw"]["shuffle_states"]:
        first = [p for p in perms[:12] if p is not None]
        if n >= 8 and len(first) >= 4:
            if len({dg(p) for p in first}) == 1:
                V.bad(f"{prop}:permutation_not_redrawn", f"the same permutation was used in all of the first {len(first)} sweeps")
            else:
                V.ok("permutation_drawn_afresh")
            if all((np.asarray(p) == np.arange(n)).all() for p in first):
                V.bad(f"{prop}:identity_permutation", "shuffling is on but every sweep used the natural order")
    # reproducible from random_seed: the twin solver gives the same schedule and the same vectors
    h1 = hs[1]
    if h1.get("perm_digests") != h0.get("perm_digests"):
        V.bad(f"{prop}:schedule_not_reproducible", "two solvers built with the same random_seed used different update orders")
    elif [s[1] for s in h1["sweeps"]] != [s[1] for s in h0["sweeps"]]:
        V.bad(f"{prop}:sweeps_not_reproducible", "two solvers built with the same random_seed produced different value vectors")
    else:
        V.ok("twin_reproducible")
    # same fixed point as synchronous value iteration
    if plan.get("converge"):
        last = h0["calls"][-1]
        eps = world["solver"]["kw"]["epsilon"]
        if not last.get("converged"):
            V.probe("did_not_converge_within_budget")
        else:
            vs = drv.mdp.vstar(drv.gamma)
            fin = run.finals[0]["values"]
            err = float(np.max(np.abs(fin - vs)))
            if err > eps * (1 + 1e-6) + 1e-9:
                V.bad(f"{prop}:wrong_fixed_point", f"converged values are {err:.3g} from the optimal value function, tolerance epsilon={eps}")
            else:
                V.ok("fixed_point_within_epsilon")
    if h0["boot"]["shape"][3] == 0 and h0["boot"]["shape"][0] > 1:
        V.probe("multi_device_no_padding")
    if not R.T.zero_vector_is_state(world["problem"]):
        V.probe("zero_vector_not_a_state")
    V.probe(f"sweeps_checked", nsw)
    return V


# --------------------------------------------------------------------------------------
# C03
# --------------------------------------------------------------------------------------
def batch_sizes(rng: random.Random, n: int) -> list[int]:
    cand = {1, 2, 3, 5, 7, 11, 13, n - 1, n, n + 1, n + 3, max(1, n // 2), 64, 65, 128}
    cand = sorted(c for c in cand if c >= 1)
    k = min(len(cand), rng.randint(3, 4))
    return sorted(rng.sample(cand, k))


def build_c03(rng: random.Random, seed: int, root: str):
    cls = rng.choice(["VI", "VI", "PI", "RVI", "PER", "SA"])
    big = rng.random() < 0.2
    prob = P.draw_problem(rng, need_anchor=cls in ("RVI", "PER"), big=big)
    n = prob["n"]
    sol = P.draw_solver(rng, cls, n, never_converge=rng.random() < 0.3, shuffle=False)
    if big and cls == "PI":
        sol["kw"]["max_eval_iter"] = min(sol["kw"]["max_eval_iter"], 5)
    ks = [rng.randint(1, 6 if cls != "PI" else 3) for _ in range(rng.choice([1, 2]))]
    if cls == "PER" and sol["kw"].get("clear_value_history_on_convergence", True):
        ks = ks[:1]
    world = {"problem": prob, "solver": sol, "ckpt": {"f": 0, "m": 1, "async": True}}
    lt = {"route": "construct", "ops": [{"op": "solve", "k": k} for k in ks]}
    plan = {"prop": "C03", "seed": seed, "devices": n_devices(), "world": world, "Tmax": None, "lifetimes": [lt], "knobs": {"max_batch_size": batch_sizes(rng, n)}}
    return plan, None


def execute_c03(plan: dict, root: str):
    """Execute the same history once per batch size; returns the list of runs."""
    runs = []
    for i, mb in enumerate(plan["knobs"]["max_batch_size"]):
        p = copy.deepcopy(plan)
        p["world"]["solver"]["kw"]["max_batch_size"] = mb
        d = os.path.join(root, f"k{i}")
        os.makedirs(d, exist_ok=True)
        runs.append(execute(p, d))
    return runs


def evaluate_c03(plan: dict, runs: list, ctl):
    prop = "C03"
    V = Q.Verdicts(prop)
    world = plan["world"]
    cls = world["solver"]["cls"]
    summary = []
    for mb, run in zip(plan["knobs"]["max_batch_size"], runs):
        h = run.hist["lifetimes"][0]
        tag = f"devices={n_devices()} max_batch_size={mb}"
        if h["boot"]["result"] != "ok":
            V.bad(f"{prop}:construction_failed:{h['boot']['exc']}", f"{tag}: {h['boot']['exc']}: {h['boot'].get('msg')}")
            continue
        failed = [c for c in h["calls"] if "exc" in c]
        if failed:
            c = failed[0]
            V.bad(f"{prop}:solve_raised:{c['exc']}", f"{tag} shape={h['boot']['shape']}: solve({c['k']}) raised {c['exc']}: {c.get('msg')}", tb=c.get("tb"), shape=h["boot"]["shape"])
            continue
        w = copy.deepcopy(world)
        w["solver"]["kw"]["max_batch_size"] = mb
        drv = RefDriver(w, h["boot"])
        n = drv.mdp.n
        nb = len(V.v)
        g0 = V.probes.get("guard_band_inconclusive", 0)
        refine(V, prop, drv, run, 0, run.boots[0]["state"], check_stop=True)
        ambiguous = V.probes.get("guard_band_inconclusive", 0) > g0
        for v in V.v[nb:]:
            v["msg"] = f"{tag} shape={h['boot']['shape']}: " + v["msg"]
        fin = run.finals[0]
        if fin["values"].shape != (n,):
            V.bad(f"{prop}:returned_length", f"{tag}: values have shape {fin['values'].shape}, expected ({n},)")
        if fin["policy"] is not None and fin["policy"].shape[0] != n:
            V.bad(f"{prop}:returned_length", f"{tag}: policy has shape {fin['policy'].shape}, expected ({n}, action_dim)")
        pol_val = None
        if fin["policy"] is not None and drv.gamma < 1.0:
            pi = drv.mdp.action_index(fin["policy"])
            if (pi < 0).any():
                V.bad(f"{prop}:policy_not_in_action_space", f"{tag}: returned policy holds vectors outside the action space")
            else:
                pol_val = drv.mdp.exact_policy_value(pi, drv.gamma)
        summary.append(
            {
                "mb": mb,
                "ambiguous": ambiguous,
                "shape": h["boot"]["shape"],
                "end_it": int(fin["iteration"]),
                "stops": [[c["it1"], bool(c["converged"])] for c in h["calls"]],
                "values": fin["values"].tolist(),
                "gain": None if "gain" not in fin else float(fin["gain"]),
                "vh": None if fin.get("value_history") is None else dg(np.round(fin["value_history"], 7)),
                "hidx": None if "history_index" not in fin else int(fin["history_index"]),
                "pol_val": None if pol_val is None else pol_val.tolist(),
            }
        )
        if h["boot"]["shape"][3] == 0 and h["boot"]["shape"][0] > 1:
            V.probe("multi_device_no_padding")
        if n < h["boot"]["shape"][0]:
            V.probe("fewer_states_than_devices")
        if h["boot"]["shape"][3] >= n:
            V.probe("padding_at_least_n_states")
    if not R.T.zero_vector_is_state(world["problem"]):
        V.probe("zero_vector_not_a_state")
    # agreement across batch sizes inside this process (fixed update order solvers)
    if cls != "SA" and len(summary) >= 2:
        compare_summaries(V, prop, summary, f"devices={n_devices()}")
    return V, summary


def compare_summaries(V, prop, summary, where: str):
    summary = [x for x in summary if not x.get("ambiguous")]  # a stop decision inside the guard band
    if len(summary) < 2:
        return
    a = summary[0]
    for b in summary[1:]:
        ta, tb = f"(mb={a['mb']},dev={a.get('dev', '')})", f"(mb={b['mb']},dev={b.get('dev', '')})"
        if a["stops"] != b["stops"]:
            V.bad(f"{prop}:stop_iteration_depends_on_partition", f"{where}: calls ended at {a['stops']} {ta} vs {b['stops']} {tb}")
            continue
        va, vb = np.array(a["values"]), np.array(b["values"])
        if va.shape != vb.shape or not np.allclose(va, vb, rtol=0, atol=atol_for(va)):
            V.bad(f"{prop}:values_depend_on_partition", f"{where}: final values differ between {ta} and {tb}")
            continue
        if (a["gain"] is None) != (b["gain"] is None) or (a["gain"] is not None and abs(a["gain"] - b["gain"]) > atol_for(np.array([a["gain"]]))):
            V.bad(f"{prop}:gain_depends_on_partition", f"{where}: gain {a['gain']} {ta} vs {b['gain']} {tb}")
        if a["hidx"] != b["hidx"] or a["vh"] != b["vh"]:
            V.bad(f"{prop}:history_depends_on_partition", f"{where}: value history / index differ between {ta} and {tb}")
        if a["pol_val"] is not None and b["pol_val"] is not None:
            pa, pb = np.array(a["pol_val"]), np.array(b["pol_val"])
            if not np.allclose(pa, pb, rtol=0, atol=1e-6 * max(1.0, float(np.max(np.abs(pa))))):
                V.bad(f"{prop}:policy_value_depends_on_partition", f"{where}: exact value of the returned policy differs between {ta} and {tb}")
        V.ok("partitions_agree")


def cross_device(results: list) -> dict:
    """Parent-side phase of C03: the same history executed in processes with different device
    counts must agree."""
    by_seed = {}
    for r in results:
        if r.get("verdict") in ("pass", "violation") and r.get("summary"):
            by_seed.setdefault(r["seed"], []).append(r)
    V = Q.Verdicts("C03")
    viols = []
    groups = 0
    for seed, rs in by_seed.items():
        if len(rs) < 2 or rs[0]["plan"]["world"]["solver"]["cls"] == "SA":
            continue
        groups += 1
        summ = []
        for r in rs:
            for s in r["summary"][:1]:
                s = dict(s)
                s["dev"] = r["devices"]
                summ.append(s)
        Vg = Q.Verdicts("C03")
        compare_summaries(Vg, "C03", summ, "across device counts " + str(sorted(r["devices"] for r in rs)))
        if Vg.v:
            viols.append((rs[0], Vg.v))
        V.checks["device_counts_agree"] = V.checks.get("device_counts_agree", 0) + Vg.checks.get("partitions_agree", 0)
    return {"violations": viols, "x_cross_device": {"histories_compared": groups, "pairwise_agreements": V.checks.get("device_counts_agree", 0)}}


# --------------------------------------------------------------------------------------
def build(prop, rng, seed, root):
    return build_c06(rng, seed, root) if prop == "C06" else build_c03(rng, seed, root)


def evaluate(prop, plan, run, ctl):
    if prop == "C06":
        return evaluate_c06(plan, run, ctl)
    raise HarnessError("C03 is evaluated through run_c03")
