"""Independent NumPy reference model.  Shares no code with mdpax.

Written from the docstrings / README of mdpax and from the textbook
definitions, not from the implementation:

* synchronous Bellman backup, greedy policy, policy backup
* block Gauss-Seidel backup for a given (devices, batches, batch size, permutation)
* reference solvers (VI span / max_diff, RVI, periodic VI, PI with iterative evaluation)
* exact policy evaluation and V* (for the semi-async error-bound clauses)
* the checkpoint directory model (cadence / retention)
"""

from __future__ import annotations

import numpy as np

from . import tables as T


class MDP:
    def __init__(self, spec: dict):
        self.spec = T.norm_spec(spec)
        t = T.make_tables(self.spec)
        self.nxt, self.rew, self.p, self.v0 = t["nxt"], t["rew"], t["p"], t["v0"]
        self.n, self.na, self.ne = self.nxt.shape
        self.avec = T.action_vectors(self.spec)
        # expected reward r[s,a] and dense transition matrix P[a,s,s']
        self.r = (self.p * self.rew).sum(-1)
        self.P = np.zeros((self.na, self.n, self.n))
        for s in range(self.n):
            for a in range(self.na):
                for e in range(self.ne):
                    self.P[a, s, self.nxt[s, a, e]] += self.p[s, a, e]

    # ---- one-step quantities -------------------------------------------------
    def q(self, V: np.ndarray, gamma: float) -> np.ndarray:
        """Q[s,a] = sum_e p (rew + gamma V[nxt])."""
        return (self.p * (self.rew + gamma * V[self.nxt])).sum(-1)

    def backup(self, V, gamma):
        return self.q(V, gamma).max(1)

    def greedy(self, V, gamma):
        """Greedy action index per state (first maximiser)."""
        return self.q(V, gamma).argmax(1)

    def greedy_set(self, V, gamma, tol=1e-9):
        """Boolean [n, na]: actions within tol of the maximum (tie-tolerant greedy test)."""
        Q = self.q(V, gamma)
        return Q >= Q.max(1, keepdims=True) - tol * np.maximum(1.0, np.abs(Q).max())

    def policy_backup(self, V, pol, gamma):
        Q = self.q(V, gamma)
        return Q[np.arange(self.n), pol]

    def action_index(self, avecs: np.ndarray) -> np.ndarray:
        """Map action vectors [n, adim] back to action indices (first match)."""
        out = np.empty(len(avecs), dtype=int)
        for i, v in enumerate(np.asarray(avecs)):
            m = np.where((self.avec == v).all(1))[0]
            out[i] = m[0] if len(m) else -1
        return out

    # ---- exact quantities ----------------------------------------------------
    def exact_policy_value(self, pol, gamma):
        Ppi = self.P[pol, np.arange(self.n), :]
        rpi = self.r[np.arange(self.n), pol]
        return np.linalg.solve(np.eye(self.n) - gamma * Ppi, rpi)

    def vstar(self, gamma):
        pol = np.zeros(self.n, dtype=int)
        for _ in range(10_000):
            V = self.exact_policy_value(pol, gamma)
            new = self.greedy(V, gamma)
            # keep current action on ties to guarantee termination
            Q = self.q(V, gamma)
            keep = Q[np.arange(self.n), pol] >= Q.max(1) - 1e-12
            new = np.where(keep, pol, new)
            if (new == pol).all():
                return V
            pol = new
        raise RuntimeError("vstar did not terminate")

    # ---- block Gauss-Seidel sweep ---------------------------------------------
    def block_gs(self, V, gamma, shape, perm=None):
        """One semi-asynchronous sweep as documented.

        slots = permutation (or natural order) followed by padding, reshaped to
        devices x batches x batch_size; every device starts from the old vector
        V; within a device, batch b reads the values already updated by batches
        < b of the same device; returns the vector in natural order.
        """
        D, B, S = shape
        n = self.n
        order = np.arange(n) if perm is None else np.asarray(perm, dtype=int)
        slots = np.concatenate([order, -np.ones(D * B * S - n, dtype=int)]).reshape(D, B, S)
        out = np.full(n, np.nan)
        cnt = np.zeros(n, dtype=int)
        for d in range(D):
            carry = V.copy()
            for b in range(B):
                st = slots[d, b][slots[d, b] >= 0]
                if len(st) == 0:
                    continue
                Q = (self.p[st] * (self.rew[st] + gamma * carry[self.nxt[st]])).sum(-1)
                newv = Q.max(1)
                carry[st] = newv
                out[st] = newv
                cnt[st] += 1
        assert (cnt == 1).all()
        return out


def span(d):
    return float(np.max(d) - np.min(d))


def batch_shape(n_states: int, max_batch_size: int, n_devices: int):
    """(devices, batches, batch_size, n_pad) as documented in BatchProcessor (used only to
    drive the block-GS reference with the partition the solver reports; the solver's own
    reported shape is asserted equal to this)."""
    spd = -(-n_states // n_devices)
    if n_devices == 1:
        bs = min(max_batch_size, n_states)
    else:
        bs = min(max_batch_size, max(64, spd))
    nb = 1 if spd <= bs else -(-spd // bs)
    return n_devices, nb, bs, n_devices * nb * bs - n_states


# ---- reference solvers ---------------------------------------------------------
class RefSolver:
    """Reference for the value-iteration family; step() performs one sweep and returns the
    documented convergence measure; `threshold` is the documented stop threshold."""

    def __init__(self, mdp: MDP, kind: str, gamma: float, epsilon: float, test: str = "span",
                 period: int = 1, V0=None):
        self.m, self.kind, self.gamma, self.eps, self.test, self.period = mdp, kind, float(gamma), float(epsilon), test, period
        self.V = (mdp.v0 if V0 is None else np.asarray(V0, dtype=float)).copy()
        self.it = 0
        self.gain = 0.0
        self.hist = [self.V.copy()]  # full history V_0, V_1, ...
        if kind in ("VI", "SA"):
            self.threshold = self.eps * (1 - self.gamma) / self.gamma if self.gamma != 1 else self.eps
        else:
            self.threshold = self.eps

    def measure_after(self, Vnew):
        k = self.kind
        if k in ("VI", "SA"):
            d = Vnew - self.V
            return span(d) if self.test == "span" else float(np.max(np.abs(d)))
        if k == "RVI":
            return span(Vnew - self.V)
        if k == "PER":
            n = self.it  # iteration number of Vnew
            if n < self.period:
                return float("inf")
            H = self.hist + [Vnew]
            if self.gamma == 1.0:
                return span(H[n] - H[n - self.period])
            tot = np.zeros_like(Vnew)
            for j in range(n - self.period + 1, n + 1):
                tot += (H[j] - H[j - 1]) / self.gamma ** (j - 1)
            return span(tot)
        raise ValueError(k)

    def step(self, sweep=None):
        """One sweep; `sweep` optionally overrides the backup (block-GS for SA)."""
        self.it += 1
        g = 1.0 if self.kind == "RVI" else self.gamma
        Vn = self.m.backup(self.V, g) if sweep is None else sweep(self.V)
        if self.kind == "RVI":
            Vn = Vn - self.gain
        meas = self.measure_after(Vn)
        if self.kind == "RVI":
            self.gain = float(Vn[-1])
        self.V = Vn
        self.hist.append(Vn.copy())
        return meas


class RefPI:
    """Policy iteration with iterative (truncated) evaluation, as documented."""

    def __init__(self, mdp: MDP, gamma, epsilon, test="span", max_eval_iter=100, reset=False, init_policy=None):
        self.m, self.gamma, self.eps, self.test, self.mei, self.reset = mdp, float(gamma), float(epsilon), test, max_eval_iter, reset
        self.threshold = self.eps * (1 - self.gamma) / self.gamma if self.gamma != 1 else self.eps
        self.pol = mdp.greedy(np.zeros(mdp.n), self.gamma) if init_policy is None else np.asarray(init_policy)
        self.V = mdp.v0.copy()
        self.V0 = mdp.v0.copy()
        self.it = 0

    def evaluate(self, pol, V):
        """Documented truncated evaluation.  Sets self.ambiguous when a stop decision fell inside
        the guard band (relative 1e-6 of the threshold, or the rounding noise of the values)."""
        self.ambiguous = False
        for _ in range(self.mei):
            Vn = self.m.policy_backup(V, pol, self.gamma)
            d = Vn - V
            meas = span(d) if self.test == "span" else float(np.max(np.abs(d)))
            noise = 1e-6 * self.threshold + 1e-12 * max(1.0, float(np.max(np.abs(Vn))))
            if abs(meas - self.threshold) <= noise:
                self.ambiguous = True
            if meas < self.threshold:
                break
            V = Vn
        return V

    def step(self):
        self.it += 1
        self.V = self.evaluate(self.pol, self.V0.copy() if self.reset else self.V)
        new = self.m.greedy(self.V, self.gamma)
        changed = int((new != self.pol).sum())
        self.pol = new
        return changed


# ---- checkpoint directory model ---------------------------------------------------
def expected_steps(existing: list[int], it0: int, it1: int, f: int, m: int, converged_at_it1: bool) -> list[int]:
    """Steps expected in the directory once a solve() call that advanced the solver from
    iteration it0 to it1 has returned and pending writes have finished.

    existing: steps in the directory before the call (sorted).  Saves are attempted for
    every multiple of f in (it0, it1] (the converged iteration is saved by the final save)
    and for it1; a save whose label is not newer than the newest existing step is skipped
    by the checkpoint manager.  The m most recent are retained.
    """
    cand = [k for k in range(it0 + 1, it1 + 1) if k % f == 0]
    cand.append(it1)
    cur = sorted(existing)
    for s in sorted(set(cand)):
        if not cur or s > cur[-1]:
            cur.append(s)
            cur = cur[-m:]
    return cur
