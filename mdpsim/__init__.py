"""mdpsim - deterministic simulation with fault injection for joefarrington/mdpax.

See /verif/DESIGN.md.  Nothing in this package is imported by mdpax; mdpax is
always imported from /repo/src (editable install) so every check runs against
the current working tree.
"""
