"""Real lifetimes: every lifetime of a plan in its own fresh interpreter, kills by real SIGKILL.

child :  python -m mdpsim.lifetime <root> <lifetime index>
parent:  run_real(plan, root) -> Run   (same object the in-process executor returns)

Used for the fidelity check of the simulation itself: the observable history of a plan
executed with real processes and real kills must equal its in-process execution.
"""

from __future__ import annotations

import json
import os
import signal
import subprocess
import sys

from . import boot


def child_main(root: str, li: int) -> int:
    plan = json.load(open(os.path.join(root, "plan.json")))
    boot.init_worker(int(plan.get("devices", 1)))
    import faulthandler

    faulthandler.dump_traceback_later(200, exit=True)
    from .world import dump_state, execute, load_state

    sp = os.path.join(root, "state.pkl")
    resume = load_state(sp) if os.path.exists(sp) else None
    run = execute(plan, root, resume=resume, only=li, real=True)
    dump_state(run, sp)
    return 0


def run_real(plan: dict, root: str, x64_first: bool = True):
    from .seams import HarnessError
    from .world import dump_state, load_state, post_crash

    os.makedirs(root, exist_ok=True)
    json.dump(plan, open(os.path.join(root, "plan.json"), "w"))
    sp = os.path.join(root, "state.pkl")
    env = boot.child_env(int(plan.get("devices", 1)), x64_first=x64_first)
    kills = 0
    for li, lt in enumerate(plan["lifetimes"]):
        p = subprocess.run([sys.executable, "-m", "mdpsim.lifetime", root, str(li)], env=env, cwd=boot.VERIF_DIR, capture_output=True, text=True, timeout=600)
        if p.returncode == -signal.SIGKILL:
            kills += 1
            run = load_state(sp)
            h = run.hist["lifetimes"][li]
            if "crash" not in h or not h["crash"].get("real_sigkill"):
                raise HarnessError(f"lifetime {li} was killed but recorded no kill point")
            post_crash(run, plan, li, os.path.join(root, "fs"))
            dump_state(run, sp)
        elif p.returncode != 0:
            raise HarnessError(f"lifetime {li} child failed rc={p.returncode}: {(p.stdout + p.stderr)[-1500:]}")
    run = load_state(sp)
    run.real_kills = kills
    return run


PROJECT_KEYS = ("i", "route", "sweeps", "saves", "calls", "src", "dst", "eff", "pre_listing", "model", "step_resolved", "end_listing", "quiesce", "perm_digests")


def fidelity_view(hist: dict) -> list:
    """Projection of a history that must coincide between in-process and real execution."""
    out = []
    for h in hist["lifetimes"]:
        v = {k: h.get(k) for k in PROJECT_KEYS}
        v["perm_digests"] = v["perm_digests"] or []
        c = h.get("crash")
        if c:
            v["crash"] = {k: c.get(k) for k in ("seam", "phase", "snap_listing", "committed", "post_listing")}
            v["crash"]["perturb_kind"] = (c.get("perturb") or {}).get("kind")
        construct_kill = bool(c) and c["seam"][0] == "construct"
        if not construct_kill:
            # (a real kill during construction dies before the solver object exists, the
            #  in-process kill unwinds after it was built - the boot record differs by design)
            b = dict(h.get("boot") or {})
            b.pop("msg", None)
            v["boot"] = b
            v["events"] = [e for e in (h.get("events") or []) if e and e[0] != "snapshot_at_gate"]
        out.append(v)
    return out


if __name__ == "__main__":
    sys.exit(child_main(sys.argv[1], int(sys.argv[2])))
