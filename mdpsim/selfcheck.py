"""Determinism self-test:  python -m mdpsim.selfcheck [--n 6] [--props C11,C09,...]

Every (property, seed) is executed in several *separate* interpreters - two PYTHONHASHSEED
values, XLA intra-op threading on and off, alone and under 16-process load - and the history
digests must be identical.  Exit 0 if so, 2 otherwise.
"""

from __future__ import annotations

import argparse
import json
import os
import subprocess
import sys
from concurrent.futures import ThreadPoolExecutor

from . import boot
from . import plan as P

CODE = """
import json, sys
from mdpsim import boot
boot.init_worker({dev})
from mdpsim import cases
out = []
for prop, seed in {items!r}:
    r = cases.run_case(prop, seed)
    out.append([prop, seed, r['verdict'], r.get('hist_digest'), r.get('plan_hash'), r.get('error')])
print('SELFCHECK ' + json.dumps(out))
"""


def run_batch(items, dev, hashseed, single_thread):
    env = boot.child_env(dev)
    env["PYTHONHASHSEED"] = str(hashseed)
    if single_thread:
        env["XLA_FLAGS"] += " --xla_cpu_multi_thread_eigen=false"
    p = subprocess.run([sys.executable, "-c", CODE.format(dev=dev, items=items)], env=env, cwd=boot.VERIF_DIR, capture_output=True, text=True, timeout=1800)
    line = [l for l in p.stdout.splitlines() if l.startswith("SELFCHECK ")]
    if not line:
        return {"error": (p.stdout + p.stderr)[-1500:]}
    return {tuple(x[:2]): x[2:] for x in json.loads(line[-1][len("SELFCHECK ") :])}


def main(argv=None):
    ap = argparse.ArgumentParser()
    ap.add_argument("--n", type=int, default=5)
    ap.add_argument("--props", default="C03,C06,C08,C09,C10,C11,C12")
    ap.add_argument("--seed", type=int, default=int(os.environ.get("VERIF_SEED", "20261004")))
    a = ap.parse_args(argv)
    props = a.props.split(",")
    by_dev = {}
    for prop in props:
        for i in range(a.n):
            s = P.run_seed(prop, a.seed, i)
            d = P.devices_for(prop, s) if prop != "C03" else [1, 2, 3][i % 3]
            by_dev.setdefault(d, []).append((prop, s))
    configs = [(0, False), (12345, False), (7, True), (0, False)]
    jobs = []
    for dev, items in by_dev.items():
        for ci, (hs, st) in enumerate(configs):
            jobs.append((dev, items, hs, st, ci))
    # configs 0..2 run concurrently (load), config 3 afterwards alone per device count
    res = {}
    with ThreadPoolExecutor(16) as ex:
        futs = {ex.submit(run_batch, items, dev, hs, st): (dev, ci) for dev, items, hs, st, ci in jobs if ci < 3}
        for f, key in futs.items():
            res[key] = f.result()
    for dev, items, hs, st, ci in jobs:
        if ci == 3:
            res[(dev, ci)] = run_batch(items, dev, hs, st)
    bad, total = [], 0
    for dev, items in by_dev.items():
        base = res[(dev, 0)]
        if "error" in base:
            bad.append(("batch failed", dev, base["error"]))
            continue
        for it in items:
            total += 1
            ref = base.get(tuple(it))
            for ci in (1, 2, 3):
                other = res[(dev, ci)]
                if "error" in other:
                    bad.append(("batch failed", dev, ci, other["error"]))
                    break
                if other.get(tuple(it)) != ref or ref is None or ref[0] == "harness_error":
                    bad.append((it, ci, ref, other.get(tuple(it))))
    print(f"selfcheck: {total} (property, seed) cases x 4 interpreter configurations; divergences: {len(bad)}")
    for b in bad[:10]:
        print("  DIVERGED", b)
    return 2 if bad else 0


if __name__ == "__main__":
    sys.exit(main())
