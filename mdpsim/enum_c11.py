"""C11 enumeration of every joint kill point of small worlds (filled in below)."""


def run(pools, tier, verif_seed, deadline, known):
    return {}
