"""C11, fault_enumeration part: every joint kill point of small seeded worlds.

For a world the *trace run* (lazy writer, no kill) lists every solver-loop seam of the first
lifetime.  The kill-point space of the world is then

    async:  seam x writer phase in {W0..W4}   (phase only where a save is in flight)
            x perturbation in {none, tmp_subset (uncommitted temp dir), partial_delete (W3)}
    sync:   seam  +  (save s, gate in {item, step, delete}) inside every save
            x the applicable perturbations
    both:   construction x {none, config.yaml truncated, config.yaml old}

and every point of it is executed: lifetime 0 is killed there, lifetime 1 restores, continues
to the end of the budget and is judged by the C11 oracles.
"""

from __future__ import annotations

import os
import random
import shutil

from . import plan as P

PHASES = ["W0", "W1", "W2", "W3", "W4"]


def world_for(seed: int, tier: str, force_cls: str | None = None) -> tuple[dict, int]:
    rng = random.Random(seed)
    cls = rng.choice(P.DET_SOLVERS)
    if force_cls:
        cls = force_cls
    prob = P.draw_problem(rng, need_anchor=cls in ("RVI", "PER"))
    prob["n"] = rng.randint(3, 8)
    sol = P.draw_solver(rng, cls, prob["n"], never_converge=True, shuffle=False)
    if cls == "PI":
        sol["kw"]["max_eval_iter"] = rng.choice([1, 2, 3])
    T = rng.randint(5, 7) if tier == "quick" else rng.randint(6, 12)
    f = rng.randint(1, 3)
    m = rng.randint(1, 2)
    asyn = rng.random() < 0.7 or bool(force_cls)
    return {"problem": prob, "solver": sol, "ckpt": {"f": f, "m": m, "async": asyn}}, T


def list_killpoints(seed: int, tier: str, force_cls: str | None = None) -> dict:
    """Runs in a worker: trace the world and return every kill-point plan."""
    from . import cases
    from . import props as Q
    from .world import execute

    world, T = world_for(seed, tier, force_cls)
    root = cases.scratch_root()
    try:
        ctl = Q.run_control(world, T, root)
        if not ctl.ok:
            return {"seed": seed, "world": world, "error": f"control failed: {ctl.exc} {ctl.msg}", "plans": []}
        trace_plan = {"prop": "C11", "world": world, "Tmax": T, "lifetimes": [{"route": "construct", "ops": [{"op": "solve_to", "it": T}], "writer": {"mode": "lazy"}}]}
        run = execute(trace_plan, os.path.join(root, "trace"))
        h = run.hist["lifetimes"][0]
        seams = [tuple(e) for e in h["events"] if e[0] in ("sweep", "save_enter", "mgr_save_return", "save_exit", "solve_return")]
        started = [s["step"] for s in h["saves"] if s["started"]]
    finally:
        shutil.rmtree(root, ignore_errors=True)
    asyn = world["ckpt"]["async"]
    points = []
    for mode in ("none", "empty", "old"):
        pert = {"kind": "none"} if mode == "none" else {"kind": "config_trunc", "mode": mode}
        points.append({"seam": ["construct"], "phase": "W0", "perturb": pert})
    inflight = False
    seen_saves = set()
    for sm in seams:
        if sm[0] in ("mgr_save_return", "save_exit") and sm[1] in started and sm[1] not in seen_saves:
            inflight = True
            seen_saves.add(sm[1])
        if asyn and inflight:
            for ph in PHASES:
                perts = ["none"]
                if ph in ("W0", "W1", "W2"):
                    perts += ["tmp_subset", "tmp_trunc"]
                if ph == "W3":
                    perts += ["partial_delete"]
                for k in perts:
                    points.append({"seam": list(sm), "phase": ph, "perturb": {"kind": k, "pseed": len(points)}})
        else:
            points.append({"seam": list(sm), "phase": "W0", "perturb": {"kind": "none"}})
    if not asyn:
        for s in started:
            for gate in ("item", "step", "delete"):
                perts = ["none", "tmp_subset"] if gate in ("item", "step") else ["none", "partial_delete"]
                for k in perts:
                    points.append({"seam": ["save_inside", s, gate], "phase": "W0", "perturb": {"kind": k, "pseed": len(points)}})
    plans = []
    for c in points:
        plans.append(
            {
                "prop": "C11",
                "seed": seed,
                "devices": 1,
                "world": world,
                "Tmax": T,
                "enumerated": True,
                "lifetimes": [
                    {"route": "construct", "ops": [{"op": "solve_to", "it": T}], "writer": {"mode": "lazy"}, "crash": c},
                    {"route": "restore", "fallback": True, "ops": [{"op": "solve_to", "it": T}, {"op": "wait"}], "writer": {"mode": "eager"}},
                ],
            }
        )
    return {"seed": seed, "world": world, "T": T, "seams": len(seams), "saves": len(started), "plans": plans}


def run(pools, tier, verif_seed, deadline, known):
    import time

    from .check import split_known

    n_worlds = 3 if tier == "quick" else 48
    # the first world is always the periodic solver, asynchronous: the one solver whose saved
    # state contains a buffer that the solver keeps mutating in place while the writer lags
    futs = [
        pools.submit_custom(1, "mdpsim.enum_c11.list_killpoints", P.run_seed("C11-enum", verif_seed, i), tier, "PER" if i % 8 == 0 else None)
        for i in range(n_worlds)
    ]
    out = {"violations": [], "known": {}, "evaluations": 0, "distinct_nontrivial": 0, "samples": [], "x_enumeration": {"worlds": []}}
    all_done = True
    fired = {}
    for f in futs:
        try:
            w = f.result(timeout=600)
        except BaseException as e:  # noqa: BLE001
            out["x_enumeration"]["worlds"].append({"error": f"listing failed: {e}"})
            all_done = False
            continue
        if w.get("error"):
            out["x_enumeration"]["worlds"].append({"seed": w["seed"], "error": w["error"]})
            all_done = False
            continue
        if deadline is not None and time.time() > deadline - 30:
            all_done = False
            out["x_enumeration"]["worlds"].append({"seed": w["seed"], "skipped": "wall cap"})
            continue
        pf = [(p, pools.submit_case(1, "C11", w["seed"], p)) for p in w["plans"]]
        done_pts, bad_pts, herr = 0, 0, 0
        for p, fu in pf:
            try:
                r = pools.result_or_retry(fu, 1, lambda p=p: pools.submit_case(1, "C11", w["seed"], p), timeout=600)
            except BaseException as e:  # noqa: BLE001
                r = {"verdict": "harness_error", "error": str(e)}
            if r["verdict"] == "harness_error":
                herr += 1
                continue
            done_pts += 1
            out["evaluations"] += 1
            if r.get("nontrivial"):
                out["distinct_nontrivial"] += 1
            for k, v in (r.get("stats") or {}).items():
                if k.startswith(("kill@", "perturb/")):
                    fired[k] = fired.get(k, 0) + v
            if r["verdict"] == "violation":
                real, kn = split_known("C11", r["violations"], known)
                for v, k in kn:
                    out["known"][k["id"]] = out["known"].get(k["id"], 0) + 1
                if real:
                    bad_pts += 1
                    r["devices"] = 1
                    out["violations"].append((r, real))
        complete = done_pts == len(w["plans"]) and herr == 0
        all_done = all_done and complete
        out["x_enumeration"]["worlds"].append(
            {
                "seed": w["seed"],
                "solver": w["world"]["solver"]["cls"],
                "ckpt": w["world"]["ckpt"],
                "n_states": w["world"]["problem"]["n"],
                "T": w["T"],
                "seams": w["seams"],
                "saves": w["saves"],
                "kill_points": len(w["plans"]),
                "executed": done_pts,
                "violating": bad_pts,
                "harness_errors": herr,
                "exhaustive": complete,
            }
        )
        if len(out["samples"]) < 2 and w["plans"]:
            out["samples"].append({"enumerated_world": w["world"], "T": w["T"], "kill_points": len(w["plans"]), "first_kill_point": w["plans"][0]["lifetimes"][0]["crash"], "last_kill_point": w["plans"][-1]["lifetimes"][0]["crash"]})
        if herr:
            out.setdefault("harness_errors", 0)
            out["harness_errors"] += herr
    out["exhaustive"] = bool(all_done and out["x_enumeration"]["worlds"])
    out["x_enumeration"]["faults_fired"] = fired
    out["rule"] = "; plus enumeration: every kill point (seam x writer phase x perturbation, see x_enumeration) of the listed small worlds, one evaluation per kill point; 'exhaustive' refers to these bounded spaces"
    return out
