"""Harness-side Problem: a seeded random tabular MDP (`Tab`).

An ordinary `mdpax.core.problem.Problem` subclass living in an importable
module with a Hydra structured config - i.e. the documented "full
reconstruction" route for custom problems - plus `TabNoCfg`, the same problem
without any config (the documented "manual reconstruction" route).
"""

from __future__ import annotations

from dataclasses import dataclass

import jax.numpy as jnp

from mdpax.core.problem import Problem, ProblemConfig

from . import tables as T


@dataclass
class TabConfig(ProblemConfig):
    _target_: str = "mdpsim.tabprob.Tab"
    seed: int = 0
    n: int = 7
    na: int = 3
    ne: int = 2
    offset: int = 0
    sdim: int = 1
    adim: int = 1
    iv: int = 0
    anchor: int = 0
    dup: int = 0


def _spec_of(cfg) -> dict:
    return {k: int(getattr(cfg, k)) for k in T.DEFAULTS}


class Tab(Problem):
    Config = TabConfig

    def __init__(self, config: TabConfig | None = None, **kw):
        self.config = config if config is not None else TabConfig(**kw)
        self._init_tables(_spec_of(self.config))
        super().__init__()

    def _init_tables(self, spec):
        self.spec = T.norm_spec(spec)
        t = T.make_tables(self.spec)
        self._nxt = jnp.array(t["nxt"], dtype=jnp.int32)
        self._rew = jnp.array(t["rew"])
        self._p = jnp.array(t["p"])
        self._v0 = jnp.array(t["v0"])
        self._w = T.state_width(self.spec)
        self._svec = jnp.array(T.state_vectors(self.spec), dtype=jnp.int32)

    @property
    def name(self) -> str:
        return "tab"

    def _construct_state_space(self):
        return self._svec

    def _construct_action_space(self):
        return jnp.array(T.action_vectors(self.spec), dtype=jnp.int32)

    def _construct_random_event_space(self):
        return jnp.arange(self.spec["ne"], dtype=jnp.int32).reshape(-1, 1)

    def state_to_index(self, s):
        c = self.spec
        if c["sdim"] == 1:
            i = s[0] - c["offset"]
        else:
            i = (s[0] - c["offset"]) * self._w + s[1]
        return jnp.clip(i, 0, c["n"] - 1)

    def _aidx(self, a):
        return a[0] if self.spec["adim"] == 1 else a[0] * 2 + a[1]

    def random_event_probability(self, s, a, e):
        return self._p[self.state_to_index(s), self._aidx(a), e[0]]

    def transition(self, s, a, e):
        i = self.state_to_index(s)
        j = self._nxt[i, self._aidx(a), e[0]]
        return self._svec[j], self._rew[i, self._aidx(a), e[0]]

    def initial_value(self, s):
        return self._v0[self.state_to_index(s)]


class TabNoCfg(Tab):
    """Same MDP, but without a config: only lightweight checkpointing is possible."""

    def __init__(self, **kw):
        self._init_tables(kw)
        Problem.__init__(self)

    @property
    def name(self) -> str:
        return "tabnocfg"
