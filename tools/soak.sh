#!/bin/bash
# usage: tools/soak.sh <first_seed> <last_seed> [tier]   - runs every claimed check per seed, outputs outside /verif
tier=${3:-quick}
export MDPSIM_OUT=${MDPSIM_OUT:-/dev/shm/mdpsim-soak-out}
export MDPSIM_WORKERS=${MDPSIM_WORKERS:-8}
for s in $(seq $1 $2); do
  for p in C03 C06 C08 C09 C10 C11 C12; do
    VERIF_SEED=$s timeout 7200 /venv/bin/python -m mdpsim.check --property $p --tier $tier > /tmp/soak_${p}_${s}.log 2>&1
    rc=$?
    echo "seed=$s $p rc=$rc $(grep -v WARNING /tmp/soak_${p}_${s}.log | grep -E 'VIOLATION|HARNESS|^\[' | tail -3 | tr '\n' ' ' | cut -c1-600)"
    if [ $rc -ne 0 ]; then grep -v WARNING /tmp/soak_${p}_${s}.log | grep -B4 -E 'VIOLATION|HARNESS' | cut -c1-1200; cp -r $MDPSIM_OUT/replays /tmp/soak_replays_$s 2>/dev/null; fi
  done
done
