#!/usr/bin/env python3
"""Regenerate the seeded-changes table of DESIGN.md section 0.6 from /verif/seeded/*/meta.json."""
import glob, json, os, re
rows = ["| id | property | change (by an independent sub-agent) | needs, to manifest | confirmed (demo 0 -> 1, suite green) | registered quick check |", "|---|---|---|---|---|---|"]
for d in sorted(glob.glob("/verif/seeded/C*-[A-Z]")):
    m = json.load(open(d + "/meta.json")); c = m["confirmation"]
    def cut(t, n):
        t = " ".join(str(t).split()).replace("|", "/"); return (t[: n - 1] + "...") if len(t) > n else t
    tail = [l.strip() for l in c.get("check_tail", "").splitlines() if l.strip().startswith("C")]
    how = tail[0].split(":")[1] if tail else ""
    res = {1: "**caught**" + (f" (`{how}`)" if how else ""), 0: "MISSED", 2: "harness error", 124: "timeout"}.get(c.get("check_rc"), str(c.get("check_rc")))
    rows.append(f"| {os.path.basename(d)} | {m.get('property', c.get('property'))} | {cut(m.get('summary'), 230)} | {cut(m.get('needs_to_manifest'), 200)} | {'yes' if c.get('confirmed') else 'NO'} | {res} |")
table = "\n".join(rows)
p = "/verif/DESIGN.md"; s = open(p).read()
if "SEEDED_TABLE_PLACEHOLDER" in s:
    s = s.replace("SEEDED_TABLE_PLACEHOLDER", "\n\n<!-- seeded-table-begin -->\n" + table + "\n<!-- seeded-table-end -->\n")
else:
    s = re.sub(r"<!-- seeded-table-begin -->.*<!-- seeded-table-end -->", "<!-- seeded-table-begin -->\n" + table.replace("\\", "\\\\") + "\n<!-- seeded-table-end -->", s, flags=re.S)
open(p, "w").write(s)
print(table)
