#!/usr/bin/env python3
"""Cross-detection matrix: every registered quick check (reduced run count) against every kept
seeded change, on scratch copies of /repo/src.  Writes /verif/seeded/matrix.json and prints a table.
usage: matrix.py [runs=120] [workers per check=5] [parallel=3]"""
import glob, json, os, shutil, subprocess, sys
from concurrent.futures import ThreadPoolExecutor
runs = sys.argv[1] if len(sys.argv) > 1 else "120"
workers = sys.argv[2] if len(sys.argv) > 2 else "5"
par = int(sys.argv[3]) if len(sys.argv) > 3 else 3
PROPS = ["C03", "C06", "C08", "C09", "C10", "C11", "C12"]
BASE = "/dev/shm/mdpsim-matrix"
def prep(sid):
    X = f"{BASE}/{sid}"; shutil.rmtree(X, ignore_errors=True); os.makedirs(X); shutil.copytree("/repo/src", X + "/src")
    r = subprocess.run(f"cd {X} && patch -s -p1 < /verif/seeded/{sid}/patch.diff", shell=True, capture_output=True, text=True)
    return X if r.returncode == 0 else None
def one(job):
    sid, prop, X = job
    env = dict(os.environ, MDPSIM_REPO_SRC=X + "/src", MDPSIM_OUT=f"{X}/out-{prop}", MDPSIM_WORKERS=workers)
    r = subprocess.run(["timeout", "1500", "/venv/bin/python", "-m", "mdpsim.check", "--property", prop, "--tier", "quick", "--runs", runs, "--no-shrink"], cwd="/verif", env=env, capture_output=True, text=True)
    cls = sorted({l.strip().split(":")[1] for l in r.stdout.splitlines() if l.startswith("  C") and ":" in l})
    return sid, prop, r.returncode, cls[:4]
sids = [os.path.basename(d) for d in sorted(glob.glob("/verif/seeded/C*"))]
jobs = []
for sid in sids:
    X = prep(sid)
    if X is None: print(sid, "patch does not apply"); continue
    jobs += [(sid, p, X) for p in PROPS]
res = {}
with ThreadPoolExecutor(par) as ex:
    for sid, prop, rc, cls in ex.map(one, jobs):
        res.setdefault(sid, {})[prop] = {"rc": rc, "classes": cls}
        print(sid, prop, rc, cls, flush=True)
shutil.rmtree(BASE, ignore_errors=True)
json.dump({"runs_per_check": int(runs), "results": res}, open("/verif/seeded/matrix.json", "w"), indent=1)
sym = {0: ".", 1: "X", 2: "H", 124: "T"}
print("\n| change | " + " | ".join(PROPS) + " |\n|---|" + "---|" * len(PROPS))
for sid in sids:
    if sid in res: print(f"| {sid} | " + " | ".join(sym.get(res[sid][p]["rc"], "?") for p in PROPS) + " |")
