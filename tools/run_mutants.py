#!/usr/bin/env python3
"""Sensitivity self-test: apply each mutant to a scratch copy of /repo/src and run the quick
check of its property with fewer runs; the check must exit 1.  Not a registered command."""
import importlib.util, os, shutil, subprocess, sys, time
from concurrent.futures import ThreadPoolExecutor
spec = importlib.util.spec_from_file_location("mutants", "/verif/mutants/mutants.py"); M = importlib.util.module_from_spec(spec); spec.loader.exec_module(M)
BASE = "/dev/shm/mdpsim-mutants"
only = set(sys.argv[1:])
def one(mut):
    name, prop, rel, old, new = mut
    d = os.path.join(BASE, name); shutil.rmtree(d, ignore_errors=True); shutil.copytree("/repo/src", d)
    p = os.path.join(d, "mdpax", rel); s = open(p).read()
    for o, n in (old if isinstance(old, list) else [(old, new)]):
        if s.count(o) < 1: return name, prop, "PATCH-DOES-NOT-APPLY", 0
        s = s.replace(o, n, 1)
    open(p, "w").write(s)
    env = dict(os.environ, MDPSIM_REPO_SRC=d, MDPSIM_WORKERS="5", MDPSIM_OUT=d + "-out")
    t = time.time()
    r = subprocess.run(["timeout", "900", "/venv/bin/python", "-m", "mdpsim.check", "--property", prop, "--tier", "quick", "--runs", os.environ.get("MUT_RUNS", "150"), "--no-shrink"], cwd="/verif", env=env, capture_output=True, text=True)
    shutil.rmtree(d, ignore_errors=True); shutil.rmtree(d + "-out", ignore_errors=True)
    v = [l for l in r.stdout.splitlines() if l.startswith("  C")][:2]
    has_line = any(l.startswith("VIOLATION property=") for l in r.stdout.splitlines())
    verdict = {0: "MISSED", 1: "caught" if has_line else "rc1-without-VIOLATION-line", 2: "HARNESS-ERROR"}.get(r.returncode, f"rc{r.returncode}")
    return name, prop, verdict, round(time.time() - t), v
muts = [m for m in M.MUTANTS if not only or m[0] in only or m[1] in only]
os.makedirs(BASE, exist_ok=True)
with ThreadPoolExecutor(3) as ex:
    for res in ex.map(one, muts): print(*res, flush=True)
shutil.rmtree(BASE, ignore_errors=True)
