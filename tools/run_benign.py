#!/usr/bin/env python3
"""False-alarm test: behaviour-preserving changes written by independent sub-agents are applied to a
scratch copy of /repo/src and every registered quick check (reduced run count) is run on it; every
check must exit 0.  usage: run_benign.py <agent worktree> <A|B|C> <id> [runs=150] [workers=8]"""
import json, os, shutil, subprocess, sys
wt, ab, bid = sys.argv[1:4]
runs = sys.argv[4] if len(sys.argv) > 4 else "150"
workers = sys.argv[5] if len(sys.argv) > 5 else "8"
src = os.path.join(wt, "seeded", ab)
X = f"/dev/shm/mdpsim-benign/{bid}"; shutil.rmtree(X, ignore_errors=True); os.makedirs(X); shutil.copytree("/repo/src", X + "/src")
r = subprocess.run(f"cd {X} && patch -s -p1 < {src}/patch.diff", shell=True, capture_output=True, text=True)
out = {"id": bid, "patch_applies": r.returncode == 0, "checks": {}}
if r.returncode == 0:
    imp = subprocess.run(["/venv/bin/python", "-c", "import mdpax.solvers, mdpax.problems"], env=dict(os.environ, PYTHONPATH=X + "/src", JAX_PLATFORMS="cpu"), capture_output=True, text=True)
    out["imports"] = imp.returncode == 0
    for prop in ["C03", "C06", "C08", "C09", "C10", "C11", "C12"]:
        env = dict(os.environ, MDPSIM_REPO_SRC=X + "/src", MDPSIM_OUT=f"{X}/out-{prop}", MDPSIM_WORKERS=workers)
        c = subprocess.run(["timeout", "2400", "/venv/bin/python", "-m", "mdpsim.check", "--property", prop, "--tier", "quick", "--runs", runs, "--no-shrink"], cwd="/verif", env=env, capture_output=True, text=True)
        lines = [l for l in c.stdout.splitlines() if "WARNING" not in l]
        out["checks"][prop] = {"rc": c.returncode, "tail": "\n".join(lines[-6:])[-1200:] if c.returncode else lines[-1][-200:] if lines else ""}
        print(bid, prop, c.returncode, flush=True)
shutil.rmtree(X, ignore_errors=True)
dst = f"/verif/benign/{bid}"; os.makedirs(dst, exist_ok=True)
for f in ("patch.diff", "equiv.py", "meta.json"):
    if os.path.exists(os.path.join(src, f)): shutil.copy(os.path.join(src, f), os.path.join(dst, f))
json.dump(out, open(os.path.join(dst, "result.json"), "w"), indent=1)
print(json.dumps({k: v["rc"] for k, v in out["checks"].items()}))
