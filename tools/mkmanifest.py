import json
claimed = {
 "C03": ("exploration", "Knob replay: one seeded call history of the real solver is executed under several max_batch_size values in each of three processes with different emulated device counts (real pmap over 1,2,3,4,8 host devices); every sweep of every execution is compared with a NumPy reference that has no notion of batches or devices (block Gauss-Seidel reference for the semi-asynchronous solver), and stop iterations, final values, gain, value history and the exact value of the returned policy are compared across partitions and device counts.", "6 (C03)"),
 "C06": ("exploration", "Seeded search over update schedules (random_seed x shuffle on/off x batch size x device count): the per-sweep permutation recorded by the guarded hook drives an independent block Gauss-Seidel reference that every returned vector must match; permutations must be redrawn per sweep and be reproducible from the seed (twin solver); converged runs must be within epsilon of V* computed by exact policy iteration.", "6 (C06)"),
 "C08": ("exploration", "Seeded search over call histories solve(k1), solve(k2), ... on one solver (before and after convergence) for all five solvers: every sweep is refined against an independent NumPy reference applied to the problem's own initial estimates, every stop/continue decision against the documented measure and threshold (with a guard band), iteration accounting per call, and the split history against a single solve(k1+k2+...) of the real code bit for bit.", "6 (C08)"),
 "C09": ("exploration", "Seeded search over interruption histories: chains of clean stops and kills at seeded iterations, restore()/load_checkpoint() routes, (f, m, sync/async) settings and writer schedules; every lifetime of the real solver must follow the uninterrupted run of the real code bit for bit at every sweep and end in the same final state; a clean stop at k must resume at exactly k; shuffled semi-async resumes must stay within the error bound. Plus a bounded-exhaustive grid (every interruption iteration x restore route of small worlds), a fidelity phase (the same plans with real fresh processes and real SIGKILL must give the same history) and a README-boot-order phase in real fresh processes.", "6 (C09)"),
 "C10": ("exploration", "Seeded search over save/restore histories (5 solvers x config / config-less / shipped problems x keyword and configuration-object construction x explicit and latest step x override combinations incl. frequency 0 x new/same directory): the restored solver's every runtime field is compared bit for bit with a copy taken when save(step) was called, the configuration with the one the directory was written with, the original directory by tree digest; documented errors for missing config / no completed step. Plus a grid phase (every solver class on every shipped problem rebuilt from YAML) and real-process fidelity / README-boot-order phases.", "6 (C10)"),
 "C11": ("fault_enumeration", "Enumeration of every joint kill point (solver-loop seam incl. inside save() x writer phase x perturbation) of small seeded worlds plus seeded sampling of crash-restore-crash chains over many worlds: after every simulated kill the restored state must be the newest step whose save ever completed, bit-equal to the state recorded at save time, restorable through restore() when the problem is reconstructible, and continuing must reproduce the uninterrupted trajectory. A seeded subset of plans is also executed with real fresh processes and real SIGKILL at the same joint points (fidelity phase; README boot order phase).", "6 (C11)"),
 "C12": ("exploration", "Seeded search over call histories (f, m, run lengths around multiples of f and around convergence, several solve() calls, restores into the same or a new directory with overrides incl. frequency 0, sync/async, all writer schedules, another solver object opening the directory while a write is pending, directories that survived a kill): the directory listing at every quiescent point is compared with a cadence/retention model and every retained step is read back through Orbax and compared with the state recorded for it. Plus the exhaustive box f in 1..4 x m in 1..3 x run length of small worlds and real-process fidelity / README-boot-order phases.", "6 (C12)"),
}
checks=[]
for pid,(lvl,text,ref) in claimed.items():
    checks.append({
      "property_id": pid,
      "quick_cmd": f"timeout 1500 /venv/bin/python -m mdpsim.check --property {pid} --tier quick",
      "thorough_cmd": f"timeout 7200 /venv/bin/python -m mdpsim.check --property {pid} --tier thorough",
      "evidence_file": f"/verif/evidence/{pid}.json",
      "replay_cmd_template": "/venv/bin/python -m mdpsim.check --replay {path}",
      "engine": "mdpsim",
      "level_claimed": {"category": lvl, "text": text, "design_ref": ref},
      "level_note": ("Trusted base: the NumPy reference model (mdpsim/refmodel.py, written from the documentation), the seeded tabular problem whose tables are its specification, XLA:CPU emulated host devices standing in for real accelerators; comparisons with the reference use atol 1e-9*max(1,|V|), threshold decisions a 1e-6 relative guard band. Sampling, not proof." if pid in ("C03","C06","C08") else "Trusted base: Orbax thread names and temp-dir + rename commit protocol of the pinned orbax-checkpoint (asserted at run time), a kill loses no completed system call (no power-loss model), XLA:CPU bitwise reproducibility for identical shapes (checked by a determinism slice in every run). Sampling, not proof, except for the enumerated kill-point spaces listed in the evidence."),
      "technique": ("deterministic simulation, fault-free configuration: seeded schedules / partitions / call histories of the real solver refined step by step against an executable reference model (no fault dimension exists for this property)" if pid in ("C03","C06","C08") else "deterministic simulation with fault injection (seeded plans; real Orbax writer threads parked/released at audit-hook gates; simulated kill = directory snapshot at the joint point + perturbation; oracle = uninterrupted run of the real code + recorded save-time states + directory model)"),
    })
na = {
 "C01": "near-optimality on convergence is a pure function of (MDP, gamma, epsilon, test, initial estimates): no schedule, clock, fault or history to simulate; its only schedule-dependent clauses (semi-async order/partition, resumed shuffled runs) are decided under C06, C03 and C09",
 "C02": "one sweep from an injected value vector is a pure function of its arguments; no history, schedule or I/O",
 "C04": "gain/bias accuracy of relative value iteration is a pure function of the MDP and epsilon",
 "C05": "accuracy of policy evaluation and the meaning of policy-iteration termination are pure functions of (MDP, policy, options)",
 "C07": "the periodic stop rule and its average-reward bound are pure functions of (MDP, period, gamma, epsilon); buffer survival across restarts is exercised inside C09/C10",
 "C13": "exhaustive table property of the shipped problems: a pure function of the problem parameters",
 "C14": "exhaustive table property of the shipped problems: a pure function of the problem parameters",
 "C15": "exhaustive table property of the shipped problems: a pure function of the problem parameters",
 "C16": "exhaustive table property of the shipped problems: a pure function of the problem parameters",
 "C17": "the matrix builder is a pure function of the problem",
 "C18": "integer arithmetic over a bounded box: the right tool is exhaustive enumeration, not simulation",
 "C19": "integer arithmetic over a bounded box: the right tool is exhaustive enumeration, not simulation",
 "C20": "a constructor/validator contract, pure in its arguments; its reload-from-configuration route is covered by C10",
}
m = {
 "version": 1,
 "setup_cmd": "/venv/bin/python -m compileall -q mdpsim",
 "hooks": {"guard": "MDPAX_VERIF", "enable": "environment variable MDPAX_VERIF=1, set by the checks in every worker process before mdpax is imported (no build step: mdpax is imported from /repo/src)", "baseline_off_cmd": "cd /repo && /venv/bin/python -m pytest -ra -q -p no:cacheprovider --timeout=900 --continue-on-collection-errors", "source_commits": ["02fd009"], "add_only": True},
 "engines": [{"name": "mdpsim", "path": "/verif/mdpsim", "serves_properties": sorted(claimed), "kind_free_text": "deterministic simulation with fault injection: seeded plans executed against the real mdpax/Orbax stack under a gate scheduler with simulated kills"}],
 "checks": checks,
 "not_applicable": [{"property_id": k, "reason": v} for k, v in sorted(na.items())],
 "notes": "See DESIGN.md. Exit codes: 0 pass, 1 VIOLATION, 2 HARNESS-ERROR. known_findings.json lists genuine defects (known / fixed).",
}
json.dump(m, open("/verif/MANIFEST.json","w"), indent=1)
