#!/usr/bin/env python3
"""Confirm a sub-agent's seeded change in a fresh scratch worktree and file it under /verif/seeded/<id>/.

usage: confirm_seeded.py <agent worktree> <A|B> <seeded id> <property> [--no-suite]
Steps (all in /tmp/vt_<id>, removed afterwards): demo on clean tree -> 0; apply patch; import;
demo -> 1; unedited test suite with the change; the property's quick check (MDPSIM_REPO_SRC).
"""
import json, os, shutil, subprocess, sys, time
wt, ab, sid, prop = sys.argv[1:5]
suite = "--no-suite" not in sys.argv
src = os.path.join(wt, "seeded", ab)
vt = f"/tmp/vt_{sid}"
def sh(cmd, **kw):
    return subprocess.run(cmd, shell=True, capture_output=True, text=True, **kw)
sh(f"git -C /repo worktree remove --force {vt}"); shutil.rmtree(vt, ignore_errors=True)
r = sh(f"git -C /repo worktree add --detach {vt} HEAD"); assert r.returncode == 0, r.stderr
env = dict(os.environ, JAX_PLATFORMS="cpu", PYTHONPATH=f"{vt}/src")
out = {"seeded_id": sid, "property": prop, "from_agent_worktree": src}
try:
    shutil.copy(os.path.join(src, "demo.py"), os.path.join(vt, "seeded_demo.py"))
    r0 = sh(f"cd {vt} && timeout 900 /venv/bin/python seeded_demo.py", env=env)
    out["demo_clean_rc"] = r0.returncode
    ra = sh(f"git -C {vt} apply {os.path.join(src, 'patch.diff')}")
    out["patch_applies"] = ra.returncode == 0
    if ra.returncode != 0: out["apply_err"] = ra.stderr[-500:]
    ri = sh(f"cd {vt} && /venv/bin/python -c 'import mdpax, mdpax.solvers, mdpax.problems; print(mdpax.__file__)'", env=env)
    out["imports"] = ri.returncode == 0 and vt in ri.stdout
    r1 = sh(f"cd {vt} && timeout 900 /venv/bin/python seeded_demo.py", env=env)
    out["demo_changed_rc"] = r1.returncode
    out["demo_changed_tail"] = (r1.stdout + r1.stderr)[-600:]
    if suite:
        t = time.time()
        rs = sh(f"cd {vt} && timeout 5400 /venv/bin/python -m pytest -q -p no:cacheprovider --timeout=900 --continue-on-collection-errors -x --deselect 'tests/test_solvers/test_periodic_value_iteration.py::test_matches_reference_policy' 2>&1 | tail -5", env=env)
        out["suite_tail"] = rs.stdout[-400:]
        out["suite_s"] = round(time.time() - t)
        out["suite_green"] = (" passed" in rs.stdout) and ("failed" not in rs.stdout) and ("error" not in rs.stdout.lower())
    t = time.time()
    cenv = dict(os.environ, MDPSIM_REPO_SRC=f"{vt}/src", MDPSIM_OUT=f"/dev/shm/mdpsim-seeded-out-{sid}", MDPSIM_WORKERS=os.environ.get("MDPSIM_WORKERS", "8"))
    rc = sh(f"cd /verif && timeout 2400 /venv/bin/python -m mdpsim.check --property {prop} --tier quick", env=cenv)
    lines = [l for l in rc.stdout.splitlines() if not l.startswith("KNOWN") and "WARNING" not in l]
    out["check_rc"] = rc.returncode
    out["check_s"] = round(time.time() - t)
    out["check_tail"] = "\n".join(lines[-8:])[-1500:]
    shutil.rmtree(cenv["MDPSIM_OUT"], ignore_errors=True)
finally:
    sh(f"git -C /repo worktree remove --force {vt}"); shutil.rmtree(vt, ignore_errors=True)
ok = out.get("demo_clean_rc") == 0 and out.get("patch_applies") and out.get("imports") and out.get("demo_changed_rc") == 1 and (out.get("suite_green") or not suite)
out["confirmed"] = bool(ok)
out["caught_by_quick_check"] = out.get("check_rc") == 1
dst = f"/verif/seeded/{sid}"
os.makedirs(dst, exist_ok=True)
for f in ("patch.diff", "demo.py"):
    shutil.copy(os.path.join(src, f), os.path.join(dst, f))
meta = json.load(open(os.path.join(src, "meta.json")))
meta["confirmation"] = out
json.dump(meta, open(os.path.join(dst, "meta.json"), "w"), indent=1)
print(json.dumps({k: out.get(k) for k in ("seeded_id", "confirmed", "demo_clean_rc", "demo_changed_rc", "suite_green", "suite_s", "caught_by_quick_check", "check_rc", "check_s")}))
print(out.get("check_tail", "")[-700:])
