#!/bin/bash
# quick look: does the registered quick check catch a sub-agent patch? (scratch copy of /repo/src, no suite)
# usage: precheck_seeded.sh <agent worktree> <A|B> <property>
wt=$1; ab=$2; prop=$3; id=$(basename $wt)_$ab
X=/dev/shm/mdpsim-pre/$id; rm -rf $X; mkdir -p $X; cp -r /repo/src $X/src
( cd $X && patch -s -p1 < $wt/seeded/$ab/patch.diff ) || { echo "$id PATCH FAILED"; exit 3; }
MDPSIM_REPO_SRC=$X/src MDPSIM_OUT=$X/out MDPSIM_WORKERS=${MDPSIM_WORKERS:-8} timeout 2400 /venv/bin/python -m mdpsim.check --property $prop --tier quick --no-shrink > $X/log 2>&1
rc=$?
echo "$id $prop rc=$rc $(grep -v WARNING $X/log | grep -v KNOWN | grep -E '^  C|^\[' | tail -3 | cut -c1-400 | tr '\n' '|')"
rm -rf $X
